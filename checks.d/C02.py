"""C02 — derived expectations agree with the reference peers on any well-formed
test case (MATRIX + ENUM).

(a) A generator enumerates the deterministic fragment of the suite schema up to
a bound (stream type x request count x response shape x error x header/trailer
shapes) and writes suites; the real runner, built from the tree, runs them in
client mode (reference client under test against the reference server and the
gRPC server) and in server mode (reference server under test against the
reference client and the gRPC client). Oracle: zero failures.
(b) in-package harness: loading/expanding any parseable but ill-formed suite
returns an error instead of crashing.
"""
import base64, importlib.util, itertools, json, os, re, subprocess, time

_here = os.path.dirname(os.path.abspath(__file__))
_spec = importlib.util.spec_from_file_location("c01mod", os.path.join(_here, "C01.py"))
c01 = importlib.util.module_from_spec(_spec)
_spec.loader.exec_module(c01)

T = "type.googleapis.com/connectrpc.conformance.v1."


def b64(b):
    return base64.b64encode(b).decode()


HEADER_SHAPES = {
    "none": [],
    "one": [{"name": "x-gen-%s", "value": ["v1"]}],
    "rep": [{"name": "x-gen-%s", "value": ["v1", "v2", "v1"]}],
    "mixed": [{"name": "X-Gen-%s-Mixed", "value": ["Value One"]}, {"name": "x-gen-%s-two", "value": ["a, b"]}],
    "bin": [{"name": "x-gen-%s-bin", "value": ["AAEC/w", "/v8"]}, {"name": "X-Gen-%s-Cap-Bin", "value": ["AAECAwQF"]}, {"name": "x-gen-%s-up-BIN", "value": ["/w"]}],
    # names that merely resemble the ones the runner adds itself (x-test-case-name, x-expect-*)
    "near": [{"name": "x-expected-%s", "value": ["r1"]}, {"name": "X-Expectation", "value": ["e"]}, {"name": "x-test-case-name-%s", "value": ["n"]}, {"name": "x-expect", "value": ["x"]}],
    # the same name in response headers and trailers (values differ per block)
    "shared": [{"name": "X-Gen-Shared", "value": ["%s-1", "%s-2"]}],
}


def headers(shape, which):
    out = []
    for h in HEADER_SHAPES[shape]:
        if shape == "shared":
            out.append({"name": h["name"], "value": [v % which for v in h["value"]]})
        else:
            out.append({"name": (h["name"] % which) if "%s" in h["name"] else h["name"], "value": list(h["value"])})
    return out


def header_combos(full):
    shapes = [x for x in HEADER_SHAPES if x != "shared"]
    combos = [("none", "none", "none")]
    for axis in range(3):
        for s in shapes[1:]:
            c = ["none"] * 3
            c[axis] = s
            combos.append(tuple(c))
    for s in shapes[1:]:
        combos.append((s, s, s))
    if not full:
        combos = [combos[0], ("rep", "none", "none"), ("none", "mixed", "none"), ("none", "none", "bin"), ("mixed", "mixed", "mixed"), ("bin", "bin", "bin"), ("near", "near", "near")]
    # one name in both response headers and trailers (must be last: callers index combos[-2:], [0])
    combos.insert(1, ("none", "shared", "shared"))
    return combos


DETAIL = {"@type": T + "Header", "name": "detail-name", "value": ["d1", "d2"]}
DETAIL2 = {"@type": T + "Error", "code": "CODE_ABORTED", "message": "second detail"}
DETAIL_EMPTY = {"@type": T + "Header"}  # a message with no field set: its encoding is zero bytes long


def errors(full):
    codes = ["CODE_CANCELED", "CODE_INVALID_ARGUMENT", "CODE_NOT_FOUND", "CODE_RESOURCE_EXHAUSTED", "CODE_INTERNAL", "CODE_UNAUTHENTICATED"]
    msgs = [("munset", None), ("mempty", ""), ("mascii", "plain message"), ("mutf8", "héllo 100% wörld €")]
    out = []
    if not full:
        codes = ["CODE_INVALID_ARGUMENT", "CODE_UNAUTHENTICATED"]
    for c in codes:
        for mn, m in msgs:
            e = {"code": c}
            if m is not None:
                e["message"] = m
            out.append(("%s-%s-d0" % (c[5:].lower(), mn), e))
    for c in codes[:2]:
        for nd, ds in (("d1", [DETAIL]), ("d2", [DETAIL, DETAIL2]), ("d0e", [DETAIL_EMPTY]), ("d2e", [DETAIL, DETAIL_EMPTY])):
            out.append(("%s-mascii-%s" % (c[5:].lower(), nd), {"code": c, "message": "with details", "details": ds}))
    return out


DATA = [("dempty", b""), ("dx", b"x"), ("dbin", b"\x00\xff\x80 text")]


SUITE_ATTRS = {}

DIRECTIVE_AXES = [
    ("relevantProtocols", "p", ["PROTOCOL_CONNECT", "PROTOCOL_GRPC_WEB"]),
    ("relevantHttpVersions", "v", ["HTTP_VERSION_1", "HTTP_VERSION_2"]),
    ("relevantCodecs", "c", ["CODEC_PROTO", "CODEC_JSON"]),
    ("relevantCompressions", "z", ["COMPRESSION_IDENTITY", "COMPRESSION_GZIP"]),
]


def gen_directive_suites():
    """Suites that differ only in their suite-level relevant* lists: none, one entry, two entries, on one axis,
    on every pair of axes and on all four; each holds the same two plain cases."""
    combos = []
    for i, (field, tag, vals) in enumerate(DIRECTIVE_AXES):
        combos.append({field: vals[:1]})
        combos.append({field: vals[1:]})
        combos.append({field: list(vals)})
        combos.append({field: list(reversed(vals))})
        for field2, tag2, vals2 in DIRECTIVE_AXES[i + 1:]:
            combos.append({field: list(vals), field2: list(vals2)})
    combos.append({f: list(v) for f, _t, v in DIRECTIVE_AXES})
    combos.append({})
    for attrs in combos:
        key = "dir-" + ("-".join("%s%d%s" % (t, len(attrs[f]), "r" if attrs[f] != v[:len(attrs[f])] and attrs[f] != v[1:] else ("b" if attrs[f] == v[1:] and len(attrs[f]) == 1 else ""))
                                 for f, t, v in DIRECTIVE_AXES if f in attrs) or "none")
        SUITE_ATTRS[key] = attrs
        for cname, rdef in (("data", {"responseData": b64(b"x")}), ("err", {"error": {"code": "CODE_NOT_FOUND", "message": "nope"}})):
            msgs = [{"@type": T + "UnaryRequest", "responseDefinition": rdef, "requestData": b64(b"req0")}]
            yield key, {"request": {"testName": "unary/" + cname, "streamType": "STREAM_TYPE_UNARY", "requestMessages": msgs}}


SIZES = [0, 1, 255, 256, 257, 1023, 1024, 1025, 4095, 4096, 4097, 16383, 16384, 16385, 65535, 65536, 65537,
         131071, 131072, 131073, 150000, 196608, 199000, 203000]


def gen_size_suites(full):
    """Unary POST and Connect GET with request / response payloads of every threshold size (below the reference
    server's 200 KiB receive limit), a patterned content so that a shifted or truncated payload is seen."""
    def blob(n, salt):
        unit = bytes((i * 7 + salt) % 251 for i in range(251))
        return b64((unit * (n // 251 + 1))[:n])
    sizes = SIZES if full else [x for x in SIZES if x in (0, 1025, 65537, 150000, 199000, 203000)]
    get_attrs = {"relevantProtocols": ["PROTOCOL_CONNECT"], "reliesOnConnectGet": True, "relevantCompressions": ["COMPRESSION_IDENTITY"]}
    SUITE_ATTRS["size-get"] = dict(get_attrs)
    # the response payload travels inside the request's response definition, and JSON inflates bytes by 4/3: the
    # sizes that fit under the server's 200 KiB receive limit only in the proto codec get suites of their own
    SUITE_ATTRS["size-get-big"] = dict(get_attrs, relevantCodecs=["CODEC_PROTO"])
    SUITE_ATTRS["size-post-big"] = {"relevantCodecs": ["CODEC_PROTO"]}
    for key, mtype, extra in (("size-post", "UnaryRequest", {}),
                              ("size-get", "IdempotentUnaryRequest", {"service": "connectrpc.conformance.v1.ConformanceService", "method": "IdempotentUnary", "useGetHttpMethod": True})):
        base_key = key
        for n in sizes:
            key = base_key + ("-big" if n > 131073 else "")
            for which in ("req", "resp", "reqerr"):
                rq, rs = (3, n) if which == "resp" else (n, 3)
                rdef = {"responseData": blob(rs, 1)}
                if which == "reqerr":
                    # an error response: the request is echoed in an error detail, so the error itself is large
                    rdef = {"error": {"code": "CODE_FAILED_PRECONDITION", "message": "large request echoed in the detail"}}
                msgs = [{"@type": T + mtype, "responseDefinition": rdef, "requestData": blob(rq, 2)}]
                req = {"testName": "unary/%s%d" % (which, n), "streamType": "STREAM_TYPE_UNARY", "requestMessages": msgs}
                req.update(extra)
                yield key, {"request": req}


def gen_cases(level):
    """Yields (suite_key, test_case_json). level: mini < quick < thorough; "dir": the suite-directive family and the
    payload-size family only."""
    if level == "dir":
        yield from gen_directive_suites()
        yield from gen_size_suites(False)
        return
    if level == "dir-full":
        yield from gen_directive_suites()
        yield from gen_size_suites(True)
        return
    full = level == "thorough"
    mini = level == "mini"
    hcs = header_combos(full)
    errs = errors(full)
    if mini:
        hcs = [hcs[0], hcs[-2], hcs[-1]]
        errs = [errs[0], errs[3], errs[-1]]

    def reqhdr(case, shape):
        hs = headers(shape, "req")
        if hs:
            case["request"]["requestHeaders"] = hs

    # unary and client stream: UnaryResponseDefinition
    for st, msgtype, stname, nreqs in (("STREAM_TYPE_UNARY", "UnaryRequest", "unary", [1]),
                                      ("STREAM_TYPE_CLIENT_STREAM", "ClientStreamRequest", "client-stream", [1, 2, 3])):
        responses = [("data-" + n, {"responseData": b64(d)}) for n, d in DATA] + [("err-" + n, {"error": e}) for n, e in errs]
        if not full:
            nreqs = nreqs[:2]
        for nreq in nreqs:
            for rname, rdef in responses:
                for hi, (hq, hr, ht) in enumerate(hcs):
                    if not full and nreq > 1 and (hq, hr, ht) != ("none", "none", "none") and not rname.startswith("data-dx"):
                        continue
                    if full and nreq > 1 and hi not in (0, len(hcs) - 2, len(hcs) - 1):
                        continue
                    if mini and nreq > 1 and hi != 0:
                        continue
                    d = dict(rdef)
                    if headers(hr, "resp"):
                        d["responseHeaders"] = headers(hr, "resp")
                    if headers(ht, "trail"):
                        d["responseTrailers"] = headers(ht, "trail")
                    msgs = [{"@type": T + msgtype, "responseDefinition": d, "requestData": b64(b"req0")}]
                    for i in range(1, nreq):
                        msgs.append({"@type": T + msgtype, "requestData": b64(b"req%d" % i)})
                    case = {"request": {"testName": "%s/n%d/%s/h-%s-%s-%s" % (stname, nreq, rname, hq, hr, ht), "streamType": st, "requestMessages": msgs}}
                    reqhdr(case, hq)
                    yield stname, case
    # response definition not in the first message (the first message alone decides, per
    # service.proto): a later definition must be ignored by every peer; also no definition at all
    for st, msgtype, stname, unary_def in (("STREAM_TYPE_CLIENT_STREAM", "ClientStreamRequest", "client-stream", True),
                                          ("STREAM_TYPE_HALF_DUPLEX_BIDI_STREAM", "BidiStreamRequest", "bidi-half", False)):
        # (full-duplex is left out: without a definition in the first message it has fewer
        # responses than requests, the family recorded as a known finding)
        late = [("late-data", {"responseData": b64(b"late")} if unary_def else {"responseData": [b64(b"late")]}),
                ("late-err", {"error": {"code": "CODE_ABORTED", "message": "late"}})]
        for nreq in (2, 3):
            for lname, ldef in late + [("nodef", None)]:
                for at in ((1,) if nreq == 2 else (1, 2)):
                    if ldef is None and at != 1:
                        continue
                    msgs = []
                    for i in range(nreq):
                        m = {"@type": T + msgtype, "requestData": b64(b"req%d" % i)}
                        if ldef is not None and i == at:
                            m["responseDefinition"] = ldef
                        msgs.append(m)
                    case = {"request": {"testName": "%s/n%d/%s-at%d" % (stname, nreq, lname, at), "streamType": st, "requestMessages": msgs}}
                    yield stname, case
    # server stream and bidi: StreamResponseDefinition
    stream_kinds = [("STREAM_TYPE_SERVER_STREAM", "ServerStreamRequest", "server-stream", [1], None),
                    ("STREAM_TYPE_HALF_DUPLEX_BIDI_STREAM", "BidiStreamRequest", "bidi-half", [1, 2, 3], False),
                    ("STREAM_TYPE_FULL_DUPLEX_BIDI_STREAM", "BidiStreamRequest", "bidi-full", [1, 2, 3], True)]
    serrs = [("noerr", None)] + [("err-" + n, e) for n, e in (errs[:4] + errs[8:10] + errs[-2:] if full else (errs if mini else errs[:3] + errs[-2:]))]
    for st, msgtype, stname, nreqs, fd in stream_kinds:
        if not full:
            nreqs = nreqs[:2]
        for nreq in nreqs:
            for nresp in (0, 1, 2, 3):
                if not full and nresp == 3:
                    continue
                if mini and nresp in (0, 3):
                    continue
                for ename, e in serrs:
                    for hi, (hq, hr, ht) in enumerate(hcs):
                        if not full and (hq, hr, ht) != ("none", "none", "none") and not (nresp == 1 and ename in ("noerr", serrs[1][0])):
                            continue
                        if full and nreq > 1 and hi not in (0, len(hcs) - 2, len(hcs) - 1):
                            continue
                        d = {"responseData": [b64(DATA[i % 3][1] + b"#%d" % i) for i in range(nresp)]}
                        if e is not None:
                            d["error"] = e
                        if headers(hr, "resp"):
                            d["responseHeaders"] = headers(hr, "resp")
                        if headers(ht, "trail"):
                            d["responseTrailers"] = headers(ht, "trail")
                        first = {"@type": T + msgtype, "responseDefinition": d, "requestData": b64(b"req0")}
                        if fd:
                            first["fullDuplex"] = True
                        msgs = [first]
                        for i in range(1, nreq):
                            msgs.append({"@type": T + msgtype, "requestData": b64(b"req%d" % i)})
                        case = {"request": {"testName": "%s/n%d/r%d-%s/h-%s-%s-%s" % (stname, nreq, nresp, ename, hq, hr, ht), "streamType": st, "requestMessages": msgs}}
                        reqhdr(case, hq)
                        yield stname, case


QUICK_CONF = """features:
  versions: [HTTP_VERSION_1, HTTP_VERSION_2]
  protocols: [PROTOCOL_CONNECT, PROTOCOL_GRPC, PROTOCOL_GRPC_WEB]
  codecs: [CODEC_PROTO, CODEC_JSON]
  compressions: [COMPRESSION_IDENTITY]
  supportsTls: false
  supportsH2c: true
  supportsConnectGet: false
  supportsMessageReceiveLimit: false
  supportsHalfDuplexBidiOverHttp1: true
"""

MID_CONF = QUICK_CONF.replace("[COMPRESSION_IDENTITY]", "[COMPRESSION_IDENTITY, COMPRESSION_GZIP]")

THOROUGH_CONF = """features:
  versions: [HTTP_VERSION_1, HTTP_VERSION_2, HTTP_VERSION_3]
  protocols: [PROTOCOL_CONNECT, PROTOCOL_GRPC, PROTOCOL_GRPC_WEB]
  codecs: [CODEC_PROTO, CODEC_JSON]
  compressions: [COMPRESSION_IDENTITY, COMPRESSION_GZIP, COMPRESSION_BR, COMPRESSION_ZSTD, COMPRESSION_DEFLATE, COMPRESSION_SNAPPY]
  supportsTls: true
  supportsTlsClientCerts: false
  supportsH2c: true
  supportsConnectGet: false
  supportsMessageReceiveLimit: false
  supportsHalfDuplexBidiOverHttp1: true
"""


def write_suites(work, level, tag="gen"):
    suites = {}
    n = 0
    for key, case in gen_cases(level):
        suites.setdefault(key, []).append(case)
        n += 1
    files = []
    d = os.path.join(work, tag + "-suites")
    os.makedirs(d, exist_ok=True)
    for key, cases in suites.items():
        p = os.path.join(d, "gen_%s.yaml" % key.replace("-", "_"))
        json.dump(dict({"name": "Gen " + key, "testCases": cases}, **SUITE_ATTRS.get(key, {})), open(p, "w"))
        files.append(p)
    return files, n, suites


def shape_class(shape):
    """Groups shapes that fail for one and the same documented reason under one key."""
    m = re.search(r"bidi-full/n(\d)/r(\d)-(noerr|err)", shape)
    if m and int(m.group(2)) < int(m.group(1)):
        peer = "reference-peers"
        if "(grpc server impl)" in shape:
            peer = "grpc-server"
        elif "(grpc client impl)" in shape:
            peer = "grpc-client"
        return "bidi-full:fewer-responses-than-requests:%s:%s" % (m.group(3), peer)
    return shape


def shape_of(name):
    """Strips the config axes from a permutation name: 'Gen unary/HTTPVersion:1/.../unary/n1/...' -> 'unary/n1/...'."""
    parts = name.split("/")
    keep = [p for p in parts if not re.match(r"^(HTTPVersion|Protocol|Codec|Compression|TLS):", p) and not p.startswith("Gen ")]
    return "/".join(keep)


def agreement(unit, work, tier, seed, repo, goenv):
    bindir = c01.build(repo, work, goenv)
    get = lambda c: c.replace("supportsConnectGet: false", "supportsConnectGet: true")
    passes = [("quick", QUICK_CONF), ("dir", get(MID_CONF))] if tier == "quick" else [("dir-full", get(THOROUGH_CONF)), ("mini", THOROUGH_CONF), ("thorough", MID_CONF)]
    only = os.environ.get("VERIF_C02_ONLY")
    rep = {"evaluations": 0, "distinct_nontrivial": 0, "samples": [], "violations": [], "exhaustive": True, "outcomes": {}, "counters": {},
           "rule": "test-case shapes enumerated completely from a bounded grammar (stream type x request count x response data/error shape x error code/message/details x request-header/response-header/trailer shape), simplest first; one evaluation = one (shape x config case x peer pairing) permutation executed by the real binaries; non-trivial = distinct permutation name",
           "extra": {"runs": {}}, "notes": []}
    t_start = time.time()
    budget = float(os.environ.get("VERIF_BUDGET_OVERRIDE") or (0 if tier == "quick" else 3000))
    only_levels = os.environ.get("VERIF_C02_PASSES")  # development aid: run only the named passes
    for level, conftext in passes:
        if only_levels and level not in only_levels.split(","):
            rep["exhaustive"] = False
            rep["notes"].append("pass %r skipped by VERIF_C02_PASSES" % level)
            continue
        if budget and time.time() - t_start > budget:
            rep["exhaustive"] = False
            rep["notes"].append("budget of %d s reached before pass %r: not run" % (budget, level))
            rep["capped"] = "budget reached before pass %s" % level
            continue
        files, ncases, suites = write_suites(work, level, tag=level)
        rep["counters"]["generated_test_cases:" + level] = ncases
        conf = os.path.join(work, "c02-config-%s.yaml" % level)
        open(conf, "w").write(conftext)
        for key, cases in list(suites.items())[:2]:
            if len(rep["samples"]) < 4:
                rep["samples"].append(cases[len(cases) // 2])
        extra = []
        for f in files:
            extra += ["--test-file", f]
        for mode, impl in (("client", "referenceclient"), ("server", "referenceserver")):
            if only and only != mode:
                continue
            run_one(rep, bindir, repo, conf, level, mode, impl, extra)
    return rep


def run_one(rep, bindir, repo, conf, level, mode, impl, extra):
    tag = "%s/%s" % (level, mode)
    rc, out, err, secs = c01.runner(bindir, repo, conf, mode, None, impl, extra=extra, timeout=3 * 3600)
    res = c01.parse(out)
    info = {"exit": rc, "wall_s": round(secs, 1), **{k: v for k, v in res.items() if k not in ("failed_names", "info_names")}}
    rep["extra"]["runs"][tag] = info
    rp = {"mode": mode, "level": level, "note": "regenerate suites with checks.d/C02.py write_suites(work, level); connectconformance -v --conf <c02-config> --mode %s --trace --test-file <level>_*.json -- %s" % (mode, impl)}
    if res["total"] is None:
        rep["violations"].append({"key": "runner-aborted:" + mode, "detail": "runner exit %s without totals. stderr tail:\n%s\nstdout tail:\n%s" % (rc, err[-2500:], out[-1500:]), "replay": rp})
        return
    rep["evaluations"] += res["total"]
    rep["distinct_nontrivial"] += res["total"]
    rep["outcomes"][tag + ":passed"] = res["passed"]
    rep["outcomes"][tag + ":failed"] = res["failed"]
    # confirm failures in isolation, 2 rounds - except those of a family already listed as a known finding
    # (they are reported under that key either way; re-running hundreds of them one by one only costs time)
    known_keys = set()
    try:
        for line in open(os.path.join(os.path.dirname(_here), "known_findings.txt")):
            m = re.match(r"finding: property=C02 key=(\S+)", line)
            if m:
                known_keys.add(m.group(1))
    except OSError:
        pass
    all_failed = list(dict.fromkeys(res["failed_names"]))
    listed = [fn for fn in all_failed if "disagreement:%s:%s" % (mode, shape_class(shape_of(fn))) in known_keys]
    remaining = [fn for fn in all_failed if fn not in set(listed)]
    confirm_deadline = time.time() + float(os.environ.get("VERIF_C02_CONFIRM_S") or 1500)
    unconfirmed = 0
    for rnd in range(2):
        if not remaining or (rnd > 0 and time.time() > confirm_deadline):
            break
        still = []
        for i in range(0, len(remaining), 40):
            chunk = remaining[i:i + 40]
            if time.time() > confirm_deadline:
                # out of time for confirming: what could not be re-run alone is counted, not reported
                unconfirmed += len(remaining) - i
                break
            ex = list(extra)
            for fn in chunk:
                ex += ["--run", fn]
            rc2, out2, err2, _s = c01.runner(bindir, repo, conf, mode, None, impl, extra=ex, timeout=1800)
            r2 = c01.parse(out2)
            if r2["total"] is None:
                still += chunk
            else:
                still += [fn for fn in chunk if fn in r2["failed_names"]]
        remaining = still
    if unconfirmed:
        rep["exhaustive"] = False
        rep["notes"].append("%s: %d failure(s) of the full run could not be re-run in isolation within the time allowed and are not reported" % (tag, unconfirmed))
        rep["capped"] = "confirmation of failing cases cut short"
    remaining = remaining + listed
    by_shape = {}
    for fn in remaining:
        by_shape.setdefault(shape_class(shape_of(fn)), []).append(fn)
    for shape, names in sorted(by_shape.items())[:25]:
        fn = names[0]
        m = re.search(r"^FAILED: " + re.escape(fn) + r".*?(?=^FAILED: |^INFO: |^Total cases|\Z)", out, flags=re.M | re.S)
        txt = (m.group(0) if m else fn)
        txt = txt.split("---- HTTP Trace ----")[0]
        if "too many open files" in txt or "cannot allocate memory" in txt:
            # the machine ran out of descriptors / memory under the run: an environment fault, not a verdict
            rep["exhaustive"] = False
            rep["notes"].append("%s: %d permutation(s) of shape %s failed for lack of resources (%s): not reported" % (tag, len(names), shape, "too many open files" if "too many open files" in txt else "out of memory"))
            continue
        rep["violations"].append({"key": "disagreement:%s:%s" % (mode, shape),
                                  "detail": "%d permutation(s) of shape %s fail in %s mode, e.g. %s" % (len(names), shape, mode, txt[:2500]),
                                  "replay": dict(rp, test=fn, shape=shape)})
    if len(by_shape) > 25:
        rep["notes"].append("%s: %d further failing shapes not listed" % (tag, len(by_shape) - 25))
    if res["norun"] and not remaining:
        rep["violations"].append({"key": "could-not-run:" + mode, "detail": "%s: %d case(s) could not be run\n%s" % (tag, res["norun"], err[-1500:]), "replay": rp})
    if rc != 0 and not res["failed_names"] and not res["norun"]:
        rep["violations"].append({"key": "runner-exit-nonzero:" + mode, "detail": "%s: exit %s although no case failed. stderr tail:\n%s" % (tag, rc, err[-1500:]), "replay": rp})
    if res["failed_names"] and not remaining:
        rep["notes"].append("%s: %d failure(s) in the full run did not persist in isolation (load)" % (tag, len(set(res["failed_names"]))))


CC = "internal/app/connectconformance"

CHECK = {
    "level": "exploration",
    "assumptions": [
        "the 'unbounded input space explored by random generation with shrinking' of the statement's quantifier is replaced by complete enumeration of a bounded grammar (random generation is sampling, outside this technique family); longer/larger cases are outside the bound",
        "zero-request client/bidi streams are not generated (a documented grpc-go server limitation, see basic.yaml)",
        "header names are outside the protocol-reserved set; -bin values are canonical unpadded base64",
        "failures are reported only if they persist when re-run in isolation",
    ],
    "manifest": {
        "engine": "MATRIX + ENUM",
        "technique": "bounded-exhaustive enumeration of test-case shapes executed through the real binaries against all four peers; bounded-exhaustive enumeration of ill-formed suites for the no-crash half",
        "text": "(a) every test-case shape of a bounded grammar (5 stream types, 1-3 requests, 0-3 responses, payload bytes incl. empty/binary, 6 error codes x 4 message forms x 0-2 details, none/single/repeated/mixed-case/binary request headers, response headers and trailers, full-duplex) is run by the real runner in client mode (reference client vs reference server and gRPC server) and server mode (reference server vs reference client and gRPC client) under HTTP/1.1+HTTP/2 x 3 protocols x 2 codecs x identity+gzip (thorough: + HTTP/3, TLS, all six compressions): zero failures. (b) every parseable ill-formed suite shape of a second grammar goes through parseTestSuites/newTestCaseLibrary: an error or a library, never a panic. Added after the seeding rounds: suites that differ only in suite-level relevant* lists (0, 1, 2 entries, reversed, on every axis pair and on all four); payload sizes 0..203000 around powers of two through POST and Connect GET for requests, responses and error responses that echo a large request; empty-message error details; header names that resemble the runner's own (x-expect*, x-test-case-name-*); capitalised -Bin names; an in-process unit (run() with no commands) for wire-check feedback.",
        "note": "Bounded grammar instead of random generation; no timing directives, so no verdict depends on time.",
        "design_ref": "DESIGN.md §4 C02, §5",
    },
    "units": [
        {"name": "c02-agreement", "kind": "script", "func": "agreement"},
        {"name": "c02-inprocess", "pkg": CC, "harness": ["connectconformance/c02_inprocess_test.go"], "test": "^TestVerifC02InProcess$",
         "shards": {"quick": 1, "thorough": 1}, "budget_s": {"quick": 300, "thorough": 900}},
        {"name": "c02-nocrash", "pkg": CC, "harness": ["connectconformance/c02_nocrash_test.go"], "test": "^TestVerifC02NoCrash$",
         "shards": {"quick": 8, "thorough": 16}, "budget_s": {"quick": 60, "thorough": 600}},
    ],
}
