CC = "internal/app/connectconformance"

CHECK = {
    "level": "exploration",
    "assumptions": [
        "the reference model (set comprehension over the 8,640-case universe) is a faithful reading of config.proto, docs/configuring_and_running_tests.md and the property statement; where those are ambiguous (codecs: [CODEC_TEXT] only; an entry naming gRPC when trailers are unsupported; an entry that can match nothing under the given features; supports_h2c without HTTP/2; supports_tls_client_certs: false without TLS) both behaviours are accepted",
        "an include/exclude entry with codec: CODEC_TEXT (config.proto: 'not used; will be ignored') is read as an entry that matches no case (no case has that codec); rejecting such an entry is accepted as well",
        "configurations outside the alphabet (UNSPECIFIED values inside repeated fields, lists longer than 2+2) are not covered",
    ],
    "manifest": {
        "engine": "ENUM",
        "technique": "bounded-exhaustive enumeration against a reference model",
        "text": "Every Config message of the alphabet is serialised and handed to the real parseConfig: all subsets of versions x protocols x stream types (thorough: all 32 subsets, quick: the 8 subsets of unary/half/full) x all 3^7 tri-states of the seven support flags (thorough: once with one explicit codec/compression, once with both left to their defaults); the design's 6 codec x 4 compression choices on all version/protocol subsets x 3^4 transport flags; the codecs field as an ordered list: every arrangement of every subset of {proto, json, text} with two or three elements plus two lists with a repeated element (14 lists; the deprecated CODEC_TEXT first, in the middle and last) on all version/protocol subsets x 3^4 transport flags (thorough: also with explicit compressions and as YAML); include/exclude lists of one entry over all 7,776 entries (every field independently omitted) on 48 feature bases (quick: 8) plus 4 (quick: 2) bases whose codecs list has CODEC_TEXT in front of or between the codecs in use, lists of two (include+exclude, 2 includes, 2 excludes) over a 40-entry subset (quick: 14), 2+2 lists on four bases (thorough); one include/exclude entry over version x protocol x {any, unary, half, full} x use_tls on every subset of versions x protocol / stream-type lists x the tri-states of supports_h2c, supports_tls and (thorough: independently) half-duplex-over-HTTP/1.1 and trailers, so that entries name values outside the listed ones while the flags they depend on are absent, true and false (family F: quick 221 k, thorough 3.0 M); every entry that names the deprecated CODEC_TEXT (5,184: each of the other seven fields independently omitted or given, up to entries that give all eight fields) as the only include / exclude entry on 3 bases (thorough: 48) - it must add and remove nothing (family G); one include entry naming a single value (every value of every enum field) x one exclude entry that gives only use_* flags (all 27 combinations) x features that restrict one axis, all five or none to their first value x supports_tls / client certs / receive limit - cases included outside the features are not matched by an exclude entry whose omitted fields range over the features (family H, 45 k); forms: protojson of the Go struct, block-style YAML with proto field names for a sub-family, empty input for the default configuration, every repeated field in descending order with its first element repeated, every repeated field with each element written twice (feature-only configurations on all version/protocol subsets; every one-entry include/exclude list on the bases HTTP/1.1-only, Connect-only and HTTP/2+3, thorough: on every base that writes a list). A configuration whose lists are written in another order / with repeated elements must have the outcome (error or not, same set) of the plainly written one, also where the documents leave the outcome itself open. The returned slice is compared as a set with Spec = cases implied by the defaulted features + matches of include entries - matches of exclude entries, computed by set algebra over the universe of 8,640 config cases; every produced case is checked against the property's list of impossible combinations; required, acceptable and unexpected errors are told apart. quick ~2.19 M configurations.",
        "note": "Spec is written from config.proto, the docs and the property text, not from config.go. Violation keys are kind + the smallest configuration (greedy one-step simplification) that still shows the kind.",
        "design_ref": "DESIGN.md §2.2, §4 C06",
    },
    "units": [
        {
            "name": "c06-enum", "pkg": CC,
            "harness": ["connectconformance/c06_test.go"],
            "test": "^TestVerifC06$",
            # the YAML parser behind parseConfig allocates heavily; with 16 processes a
            # small GOMAXPROCS and a lazy GC triple the throughput
            "gomaxprocs": 2, "env": {"GOGC": "800"},
            "shards": {"quick": 16, "thorough": 16},
            "budget_s": {"quick": 40, "thorough": 540},
        },
    ],
}
