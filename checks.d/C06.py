CC = "internal/app/connectconformance"

CHECK = {
    "level": "exploration",
    "assumptions": [
        "the reference model (set comprehension over the 8,640-case universe) is a faithful reading of config.proto, docs/configuring_and_running_tests.md and the property statement; where those are ambiguous (codecs: [CODEC_TEXT] only; an entry naming gRPC when trailers are unsupported; an entry that can match nothing under the given features; supports_h2c without HTTP/2; supports_tls_client_certs: false without TLS) both behaviours are accepted",
        "configurations outside the alphabet (UNSPECIFIED values inside repeated fields, CODEC_TEXT inside entries, lists longer than 2+2) are not covered",
    ],
    "manifest": {
        "engine": "ENUM",
        "technique": "bounded-exhaustive enumeration against a reference model",
        "text": "Every Config message of the alphabet (all subsets of versions x protocols x stream types x all 3^7 tri-states of the support flags; the design's codec and compression choices; include/exclude lists of one entry over all 7,776 entries with independently omitted fields on 48 feature bases, lists of two over a 40-entry subset, 2+2 lists on four bases; protojson, block YAML, empty input, reordered/duplicated lists) is serialised and handed to the real parseConfig; the returned slice is compared as a set with Spec = features-implied cases + matches of include entries - matches of exclude entries computed by set algebra over the universe of 8,640 config cases; every produced case is checked against the property's list of impossible combinations; required, acceptable and unexpected errors are told apart.",
        "note": "Spec is written from config.proto, the docs and the property text, not from config.go. Violation keys are kind + the smallest configuration (greedy one-step simplification) that still shows the kind.",
        "design_ref": "DESIGN.md §2.2, §4 C06",
    },
    "units": [
        {
            "name": "c06-enum", "pkg": CC,
            "harness": ["connectconformance/c06_test.go"],
            "test": "^TestVerifC06$",
            # the YAML parser behind parseConfig allocates heavily; with 16 processes a
            # small GOMAXPROCS and a lazy GC triple the throughput
            "gomaxprocs": 2, "env": {"GOGC": "800"},
            "shards": {"quick": 16, "thorough": 16},
            "budget_s": {"quick": 40, "thorough": 540},
        },
    ],
}
