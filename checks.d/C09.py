PKG = "internal"

CHECK = {
    "level": "fault_enumeration",
    "assumptions": [
        "message alphabet: ClientCompatResponse values of serialized size 0, 2, 3 and 5 bytes (no valid protobuf message has size 1), sequences of 1-3 messages; longer messages/sequences are outside the bound",
        "a Read answer is min(len(p), rest of the scripted chunk); zero-length Reads are answered (0,nil) like an os.File (or, in a separate variant for ReadDelimitedMessage, with the stream's state like bytes.Reader/io.Pipe: the terminal error, resp. blocking on a stalled stream); readers never return (0,nil) for a non-empty buffer; an error, once returned, is sticky",
        "compositions are complete for delivered prefixes up to 12 (quick) / 17 binary, 16 JSON (thorough) bytes; a delivered prefix that is byte-identical to one of an earlier stream is enumerated once; longer prefixes use all compositions into <=3 (whole stream) or <=2 (cut streams) chunks plus the all-1-byte one",
        "size limit and timeout are properties of ReadDelimitedMessage only; the peer-side StreamDecoders have neither parameter, so oversize and stall cases are not run against them (the binary decoder allocates whatever the prefix declares - reported as an observation, not a violation)",
        "when the stall happens before the first byte of a message the timeout text need not carry counts (nothing was received); otherwise both scripted numbers k and n must appear in the text, wording free",
        "a timeout error that arrives earlier than the configured period is recorded as an outcome, not a violation ('within the configured period')",
        "failing writers: the k-th Write fails with (0,err) or (len/2,err) and the writer stays broken; an encoder may ignore a failure only if the accepted bytes already contain the whole message (JSON encoder's best-effort trailing newline)",
        "testing/synctest virtual time: the 7 s timeout elapses only when every goroutine of the bubble is durably blocked, so there is no wall-clock oracle",
    ],
    "manifest": {
        "engine": "ENUM",
        "technique": "bounded-exhaustive enumeration of read partitions, cut points, faults and stall points against a whole-buffer reference parser (virtual time via testing/synctest)",
        "text": "For every sequence of 1-3 small messages written by the real writers (WriteDelimitedMessage, binary and JSON stream encoders; plus hand-written compact JSON), every number of delivered bytes, every composition of those bytes into Read answers (complete up to the stated length, <=3 chunks + all-1-byte beyond) and every ending (EOF, EOF together with the last data, I/O error, I/O error with the last data, stall) is fed to ReadDelimitedMessage and to both StreamDecoders; the results are compared with a reference parser of the whole buffer: same messages in order, io.EOF at a boundary, unexpected-end class error inside a prefix/body (JSON: any non-EOF error), never a message that was not completely delivered; stall => timeout error not later than the virtual timeout carrying the scripted k/n counts; prefixes declaring limit (accepted), limit+1, 2^16, 64 MiB, 2^31-1, 2^31, 2^32-1 against limits 0/2/5/1024 under all 8 prefix chunkings => rejected without a body-sized buffer (largest Read buffer after the prefix, TotalAlloc delta); writers failing at every Write index must report the failure unless the message is already completely accepted.",
        "note": "Bounds as listed in the assumptions; reference parser and protobuf runtime are trusted; peer-side decoders have no limit/timeout parameter and are exempt from those clauses.",
        "design_ref": "DESIGN.md §2.2, §4 C09",
    },
    "units": [
        {
            "name": "c09-enum", "pkg": PKG,
            "harness": ["internal/c09_test.go"],
            "test": "^TestVerifC09$",
            "shards": {"quick": 16, "thorough": 16},
            "budget_s": {"quick": 45, "thorough": 500},
        },
        {
            # the runner's call sites of the framing code (limits, timeouts, truncation of
            # server responses) through the real runTestCasesForServer under the GATE scheduler
            "name": "c09-callsites", "pkg": "internal/app/connectconformance", "rewrite": ["internal/app/connectconformance"],
            "harness": ["connectconformance/c11_test.go", "connectconformance/fakeproc_test.go", "connectconformance/gateutil_test.go"],
            "test": "^TestVerifC09CallSites$", "gomaxprocs": 1,
            "shards": {"quick": 8, "thorough": 16},
            "budget_s": {"quick": 45, "thorough": 300},
        },
    ],
}
