PKG = "internal"

CHECK = {
    "level": "fault_enumeration",
    "assumptions": [
        "message alphabet: ClientCompatResponse values of serialized size 0, 2, 3 and 5 bytes (no valid protobuf message has size 1), sequences of 1-3 messages; longer messages/sequences are outside the bound",
        "a Read answer is min(len(p), rest of the scripted chunk); zero-length Reads are answered (0,nil) like an os.File (or, in a separate variant for ReadDelimitedMessage, with the stream's state like bytes.Reader/io.Pipe: the terminal error, resp. blocking on a stalled stream); readers never return (0,nil) for a non-empty buffer; an error, once returned, is sticky",
        "compositions are complete for delivered prefixes up to 12 (quick) / 17 binary, 16 JSON (thorough) bytes; a delivered prefix that is byte-identical to one of an earlier stream is enumerated once; longer prefixes use all compositions into <=3 (whole stream) or <=2 (cut streams) chunks plus the all-1-byte one",
        "size limit and timeout are properties of ReadDelimitedMessage only; the peer-side StreamDecoders have neither parameter, so oversize and stall cases are not run against them (the binary decoder allocates whatever the prefix declares - reported as an observation, not a violation)",
        "when the stall happens before the first byte of a message the timeout text need not carry counts (nothing was received); otherwise both scripted numbers k and n must appear in the text, wording free",
        "a timeout error that arrives earlier than the configured period is recorded as an outcome, not a violation ('within the configured period')",
        "timed family: chunk i becomes available a delay from {0, timeout/3, timeout-1ms} after the Read that first asks for it (virtual time); the configured period is counted from the start of the CALL of ReadDelimitedMessage during which the peer stalls; a peer that is merely slower than the period (a chunk arrives after it) is unconstrained except that a timeout error must not come late; a call whose bytes all arrive in less than the period must deliver its message",
        "cross family (ReadDelimitedMessage, several streams in one process): histories of 2-3 scripted peers, each with its own reader, read one after the other; a peer delivers its whole frame (every letter; every composition for the two-stream shape, <=2 chunks + all-1-byte in three-stream shapes) or a proper prefix (every cut, one chunk) and then stalls into the timeout; the Read in which the abandoned reader goroutine of a timed-out call is blocked is answered LATER - with the rest of the frame or with 0xEE bytes - before a chosen chunk of a later call (or while a later peer is stalled, or after the last call); shapes stall,done / done,stall / stall,stall / stall,done,done / stall,stall,done (quick: cuts 0, 2, 4, last and junk only for the last shape); plus two healthy peers read at the same time on two goroutines with every interleaving of their chunk arrivals (<=2 chunks each, thorough <=3); runs with GOMAXPROCS(1) and the collector off so that a free list hands an object straight to the next call; longer histories, more than one late delivery per stalled peer and re-reading a stream after its timeout are outside the bound",
        "big family (ReadDelimitedMessage with an 8 MiB limit and both StreamDecoders): streams f,B,f (thorough: B,f and f,B,f,f) where B is ONE message of size 2^k-1 / 2^k+1 (thorough also 2^k; quick stops at 2^21-1) for k=10..21 - serialized size for the binary framing, length of the JSON text for the JSON variant (compact hand-written JSON and the real encoder; thorough also concatenated without separator) - and f a small message whose strings hold blanks, runs of blanks, escaped tab/newline and raw U+0085/U+00A0/U+2028/U+3000 at start, middle and end; partitions are NOT all compositions: lump [E+c, rest] and (k<=16, thorough k<=18) tail [E-7, 7+c, rest], cut [E+c]+EOF (thorough also EOF with the last data) for E = end of B and every c in 0..64 (thorough 0..160), plus one piece and fixed reads of 4093 / 65537 bytes; a Read answer is min(len(p), rest of the chunk), so where exactly a reader's own buffer ends inside a chunk is up to the reader; more than one large message per stream and large messages with other field shapes (bytes payloads, many small fields) are outside the bound",
        "unit c09-peers: the peers are driven in-process through the exported Run / RunInReferenceMode with a scripted stdin; client requests name no HTTP version, so each is answered with an error result without any network (the answer path itself is C19/C13 territory); the client part runs inside synctest bubbles ('everything the client can do while stdin stays open' = all goroutines durably blocked); the server part listens on loopback port 0, plain HTTP/1.1, and uses a 60 s wall-clock guard only to turn a hang into a report",
        "failing writers: the k-th Write fails with (0,err) or (len/2,err) and the writer stays broken; an encoder may ignore a failure only if the accepted bytes already contain the whole message (JSON encoder's best-effort trailing newline)",
        "testing/synctest virtual time: the 7 s timeout elapses only when every goroutine of the bubble is durably blocked, so there is no wall-clock oracle",
    ],
    "manifest": {
        "engine": "ENUM",
        "technique": "bounded-exhaustive enumeration of read partitions, cut points, faults and stall points against a whole-buffer reference parser (virtual time via testing/synctest)",
        "text": "For every sequence of 1-3 small messages written by the real writers (WriteDelimitedMessage, binary and JSON stream encoders; plus hand-written compact JSON), every number of delivered bytes, every composition of those bytes into Read answers (complete up to the stated length, <=3 chunks + all-1-byte beyond) and every ending (EOF, EOF together with the last data, I/O error, I/O error with the last data, stall) is fed to ReadDelimitedMessage and to both StreamDecoders; the results are compared with a reference parser of the whole buffer: same messages in order, io.EOF at a boundary, unexpected-end class error inside a prefix/body (JSON: any non-EOF error), never a message that was not completely delivered; stall => timeout error not later than the virtual timeout carrying the scripted k/n counts; prefixes declaring limit (accepted), limit+1, 2^16, 64 MiB, 2^31-1, 2^31, 2^32-1 against limits 0/2/5/1024 under all 8 prefix chunkings => rejected without a body-sized buffer (largest Read buffer after the prefix, TotalAlloc delta); writers failing at every Write index must report the failure unless the message is already completely accepted. Timed family (ReadDelimitedMessage): streams of one message (all letters) and two (sizes 0/2/5, thorough all), every number of delivered bytes, every composition of up to 7 (thorough 9) delivered bytes (beyond: <=3 chunks + all-1-byte), every assignment of arrival delays {0, T/3, T-1ms} to the chunks (more than 7 chunks: uniform / one / two delayed chunks), then stall or end of stream, judged by a byte-walking timing model: the stalled call returns the timeout error not later than T after it began, with the counts that had arrived, a call whose bytes arrive within less than T delivers. Cross family (ReadDelimitedMessage): histories over 2-3 independent scripted peers read in sequence - a peer either delivers its whole frame or stalls after any cut into the timeout and answers the abandoned Read later (rest of its frame or junk) at every chunk boundary of a later call - and pairs of calls running at the same time under every interleaving of chunk arrivals; oracle per stream, independent of the others: a completely delivered message is read back exactly as written and still reads so at the end of the history, a stalled call returns the timeout error within the period carrying its own counts. Big family (same three readers, oracle of the read family): one message of a size around every power of two from 2^10 to 2^21 (+-1, thorough also exact; binary size resp. JSON text length, i.e. below and above 1 MiB and 2 MiB) between small messages with white space of every kind inside their strings, delivered so that one Read-answer window ends at every offset c = 0..64 (thorough ..160) behind the large message (lump [E+c, rest]; for k<=16 / thorough k<=18 also tail [E-7, 7+c, rest] and the stream ending at E+c), plus one piece and fixed 4093/65537-byte reads: every message is read back exactly as written, a clean end is io.EOF, an end inside the following message is an error. Unit c09-peers: the request loop of referenceclient.Run / RunInReferenceMode (binary and -json, default parallelism and -p 1) is fed 1-3 requests (empty / short / 700-byte test name; real encoders and compact JSON) cut at every byte (long streams: around every boundary, prefix and multiple of 512) in every composition up to 12 (16) bytes, beyond that <=3 chunks, 1-byte reads and every grouping of whole messages, ended by EOF, EOF with the last data or left open: exactly one (error-result) response per completely delivered request - already while stdin is open -, Run returns nil iff the input ends at a message boundary; referenceserver.Run / RunInReferenceMode reading its single ServerCompatRequest under the same chunkings: one ServerCompatResponse with host and port for a complete request (also with stdin left open), failure without response for a truncated one.",
        "note": "Bounds as listed in the assumptions; reference parser and protobuf runtime are trusted; peer-side decoders have no limit/timeout parameter and are exempt from those clauses.",
        "design_ref": "DESIGN.md §2.2, §4 C09",
    },
    "units": [
        {
            "name": "c09-enum", "pkg": PKG,
            "harness": ["internal/c09_test.go", "internal/c09_big_test.go"],
            "test": "^TestVerifC09$",
            "shards": {"quick": 16, "thorough": 16},
            "budget_s": {"quick": 45, "thorough": 500},
        },
        {
            # the peers' call sites of the stream decoders: the request loop of referenceclient.Run and the
            # single read of referenceserver.Run under scripted stdin (client part inside synctest bubbles)
            "name": "c09-peers", "pkg": "internal/app/referenceclient",
            "harness": ["referenceclient/c09_peers_test.go"],
            "test": "^TestVerifC09Peers$",
            "shards": {"quick": 16, "thorough": 16},
            "budget_s": {"quick": 40, "thorough": 300},
        },
        {
            # the client runner's call site: the client's output cut at every byte (either exit status, also after
            # everything was answered), oversized/garbled prefixes, silence - through the real runClient under GATE
            "name": "c09-client-runner", "pkg": "internal/app/connectconformance", "rewrite": ["internal/app/connectconformance"],
            "harness": ["connectconformance/c10_test.go", "connectconformance/fakeproc_test.go", "connectconformance/gateutil_test.go"],
            "test": "^TestVerifC09ClientRunner$", "gomaxprocs": 1,
            "shards": {"quick": 16, "thorough": 16},
            "budget_s": {"quick": 60, "thorough": 600},
        },
        {
            # the runner's call sites of the framing code (limits, timeouts, truncation of
            # server responses) through the real runTestCasesForServer under the GATE scheduler
            "name": "c09-callsites", "pkg": "internal/app/connectconformance", "rewrite": ["internal/app/connectconformance"],
            "harness": ["connectconformance/c11_test.go", "connectconformance/fakeproc_test.go", "connectconformance/gateutil_test.go"],
            "test": "^TestVerifC09CallSites$", "gomaxprocs": 1,
            "shards": {"quick": 8, "thorough": 16},
            "budget_s": {"quick": 45, "thorough": 300},
        },
    ],
}
