CC = "internal/app/connectconformance"

CHECK = {
    "level": "exploration",
    "assumptions": [
        "a single deviation / a single leniency rewrite per evaluated pair, each also combined with every allowed alternative error code being reported (other combinations of deviations are not enumerated)",
        "two-call histories: the cold verdict of a comparison whose value lists both contain a token is taken in the same process with tokens never used before (a verdict does not depend on how the pieces of a value are spelled); comparisons with a token-free list ([] and [\"\"]) get their cold verdict from a freshly started process (the test binary re-executed)",
        "expected results are the distinct shapes of the expanded embedded corpus (reference config, all three run modes) plus a hand-enumerated grammar; other expectations are outside the bound",
        "the outcome of assert() is observed through testResults.outcomes (nil vs error and the error text), as the runner does",
    ],
    "manifest": {
        "engine": "ENUM",
        "technique": "bounded-exhaustive enumeration against a reference model",
        "text": "For every distinct expected response of the expanded embedded corpus and of a small grammar (unary/stream, 0-3 payloads, errors with/without message and 0-2 details, repeated / mixed-case / comma-containing headers and trailers, request info with headers, query params and timeout) and of a sized family (payload data of a unary and of three full-duplex responses, error message, two error details, echoed request, each 255/256/257, 1023/1024/1025, 4095/4096/4097 and 65535/65536/65537 bytes long, so that byte-carrying fields straddle the usual buffer / truncation thresholds) the real testResults.assert is called with the identical result, with every documented leniency rewrite at every position (must pass) and with every single deviation at every position (must fail and the failure text must name the discrepancy; byte strings - payload data, detail values, echoed request values - are altered at the first, the middle and the last byte and have one byte dropped / appended at the end, error messages likewise by character). Code routes: every expectation with an error is evaluated again with other_allowed_error_codes lists of 1, 3 (thorough: 1, 2, 3) alternatives laid over it, and with its own list, the result reporting the primary code and each alternative in turn; every leniency rewrite and every deviation (message, details, metadata, payloads, echoed requests, timeout, HTTP status ...) is applied on top and must keep its verdict and its naming - an allowed alternative waives the code comparison only. Two-call histories: for every ordered pair of comparisons (place = response header / trailer / echoed request header / echoed query parameter) x (expected values, reported values) over the value-list shapes [], [\"\"], [p], [\"p, q\"], [p,q], [p,\" q\"], [\"p \",q], [\"p ,q\"], [\"p,q\"], [q,p] (thorough: 6 more with empty members and edge blanks), both assertions made in one process with shared tokens, the verdict of the second must be the verdict the same comparison gets in a fresh state (160,000 histories quick, 1,048,576 thorough); where the statement fixes the verdict of a comparison (identical lists, joined/split on \",\" or \", \", a piece removed / altered / swapped) the fresh-state verdict is checked against it too. Rewrites and deviations are generated from the property text, the proto comments and docs/, not from results.go.",
        "note": "Trusts the protobuf runtime (Clone/Equal) and the corpus loader of the package (exercised by C02/C07) to provide expectations. Only single deviations; the leniency list of the statement is taken as closed; cases whose outcome the statement leaves open (extra value on an expected header, whitespace around values, presence of request_info itself) are not generated.",
        "design_ref": "DESIGN.md §2.2, §4 C03",
    },
    "units": [
        {
            "name": "c03-enum", "pkg": CC,
            "harness": ["connectconformance/c03_test.go"],
            "test": "^TestVerifC03$",
            "shards": {"quick": 16, "thorough": 16},
            "budget_s": {"quick": 60, "thorough": 540},
        },
    ],
}
