CC = "internal/app/connectconformance"

CHECK = {
    "level": "exploration",
    "assumptions": [
        "a single deviation / a single leniency rewrite per evaluated pair (combinations of deviations are not enumerated)",
        "expected results are the distinct shapes of the expanded embedded corpus (reference config, all three run modes) plus a hand-enumerated grammar; other expectations are outside the bound",
        "the outcome of assert() is observed through testResults.outcomes (nil vs error and the error text), as the runner does",
    ],
    "manifest": {
        "engine": "ENUM",
        "technique": "bounded-exhaustive enumeration against a reference model",
        "text": "For every distinct expected response of the expanded embedded corpus and of a small grammar (unary/stream, 0-3 payloads, errors with/without message and 0-2 details, repeated / mixed-case / comma-containing headers and trailers, request info with headers, query params and timeout) and of a sized family (payload data of a unary and of three full-duplex responses, error message, two error details, echoed request, each 255/256/257, 1023/1024/1025, 4095/4096/4097 and 65535/65536/65537 bytes long, so that byte-carrying fields straddle the usual buffer / truncation thresholds) the real testResults.assert is called with the identical result, with every documented leniency rewrite at every position (must pass) and with every single deviation at every position (must fail and the failure text must name the discrepancy; byte strings - payload data, detail values, echoed request values - are altered at the first, the middle and the last byte and have one byte dropped / appended at the end, error messages likewise by character). Rewrites and deviations are generated from the property text, the proto comments and docs/, not from results.go.",
        "note": "Trusts the protobuf runtime (Clone/Equal) and the corpus loader of the package (exercised by C02/C07) to provide expectations. Only single deviations; the leniency list of the statement is taken as closed; cases whose outcome the statement leaves open (extra value on an expected header, whitespace around values, presence of request_info itself) are not generated.",
        "design_ref": "DESIGN.md §2.2, §4 C03",
    },
    "units": [
        {
            "name": "c03-enum", "pkg": CC,
            "harness": ["connectconformance/c03_test.go"],
            "test": "^TestVerifC03$",
            "shards": {"quick": 16, "thorough": 16},
            "budget_s": {"quick": 60, "thorough": 540},
        },
    ],
}
