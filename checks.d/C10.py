CC = "internal/app/connectconformance"

CHECK = {
    "level": "model_checking",
    "assumptions": [
        "c10-osproc is exhaustive over its program x driver list, not over OS schedules; its only wall-clock oracle is a 90 s watchdog against 20 s for the slowest legitimate path",
        "sequential consistency; preemption only at gates (mutex acquisition, atomic access, fake-process events)",
        "race-freedom of the segments between gates (checked separately by the free-running -race unit in the thorough tier)",
        "the scripted fake client process covers the behaviours of a real one: answer order, exit, truncation, duplicate, unknown, oversize, garbage, stall, stdin failures",
        "state cache key (runner fields, fake process state, harness observations, parked goroutines, virtual clock) determines future behaviour; cross-checked by VERIF_NOCACHE=1 runs reaching the same outcome set",
    ],
    "manifest": {
        "engine": "GATE",
        "technique": "stateless model checking of the real goroutines (controlled scheduler in a synctest bubble, preemption-bounded DFS with state caching)",
        "text": "Every interleaving, at mutex/atomic/process-event granularity and up to the stated preemption bound (1 quick, 2 thorough), of the real runClient multiplexer against a scripted client process is executed, for every scenario of a small alphabet (1-2 senders, 1-2 requests, colliding names, 9 client faults at every answer count, every cut offset, stdin failures); each execution is judged: callbacks == accepted sends, own response only, refusal afterwards, isRunning false, waitForResponses returns, no deadlock. Added after the seeding rounds: a client that stops reading its input; io.Pipe semantics for the client's stdin (every write, a zero-length one included, completes only at a client.read gate) with an early-answering client; answers delivered in every cut into <= 3 pieces followed by silence; isRunning() sampled when a failure is reported; closed input x stream failure; output cut with exit status 0; a second framed stream of the process that times out mid-message and whose peer resumes at any moment; senders that pause longer than the response time-out; state keys include a reflective rendering of every field of the runner; unit c10-osproc: the client is a real OS process through runCommand/runClient (peer programs x three drivers).",
        "note": "Sequential consistency and preemption only at gates; fake process instead of an OS process; race freedom between gates assumed (free-running -race pass in thorough tier); state cache abstraction cross-checked against uncached search.",
        "design_ref": "DESIGN.md §2.1, §4 C10",
    },
    "units": [
        {
            # the real runCommand path: the client is a real OS process (the test binary re-executed)
            "name": "c10-osproc", "pkg": CC, "overlap": True, "harness": ["connectconformance/osproc_test.go", "connectconformance/c10_test.go", "connectconformance/c05_test.go", "connectconformance/peersim_test.go", "connectconformance/c11_test.go", "connectconformance/fakeproc_test.go", "connectconformance/gateutil_test.go"],
            "test": "^TestVerifOSProcClient$",
            "shards": {"quick": 28, "thorough": 32},  # the runs mostly sleep (the runner's 5-20 s timeouts), so more shards than cores
            "budget_s": {"quick": 120, "thorough": 600},
        },
        {
            "name": "c10-gate", "pkg": CC, "rewrite": [CC],
            "harness": ["connectconformance/c10_test.go", "connectconformance/fakeproc_test.go", "connectconformance/gateutil_test.go"],
            "test": "^TestVerifC10$", "gomaxprocs": 1,
            "shards": {"quick": 16, "thorough": 16},
            "budget_s": {"quick": 100, "thorough": 1500},
        },
        {
            # the same search with Unlock as a scheduling point of its own (preemption between an
            # Unlock and the next action of that goroutine), as far as the budget goes
            "name": "c10-unlockgates", "pkg": CC, "rewrite": [CC], "tiers": ["thorough"],
            "harness": ["connectconformance/c10_test.go", "connectconformance/fakeproc_test.go", "connectconformance/gateutil_test.go"],
            "test": "^TestVerifC10$", "gomaxprocs": 1, "env": {"VERIF_GATE_UNLOCK": "1", "VERIF_TIER_OVERRIDE": "quick"},
            "shards": {"quick": 16, "thorough": 16},
            "budget_s": {"quick": 120, "thorough": 600},
        },
        {
            # cross-check of the state-cache abstraction against the uncached search
            "name": "c10-cachecheck", "pkg": CC, "rewrite": [CC], "tiers": ["thorough"],
            "harness": ["connectconformance/c10_test.go", "connectconformance/fakeproc_test.go", "connectconformance/gateutil_test.go"],
            "test": "^TestVerifC10CacheCheck$", "gomaxprocs": 1,
            "shards": {"quick": 16, "thorough": 16},
            "budget_s": {"quick": 120, "thorough": 900},
        },
        {
            # free-running pass for the race detector: no shims, no bubble
            "name": "c10-race", "pkg": CC, "race": True, "tiers": ["thorough"],
            "harness": ["connectconformance/c10_test.go", "connectconformance/fakeproc_test.go", "connectconformance/gateutil_test.go"],
            "test": "^TestVerifC10Race$",
            "shards": {"quick": 8, "thorough": 16},
            "budget_s": {"quick": 120, "thorough": 600},
        },
    ],
}
