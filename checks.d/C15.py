TR = "internal/tracer"
HARNESS = ["tracer/c15_common_test.go", "tracer/c15_attr_test.go", "tracer/c15_transp_test.go"]

CHECK = {
    "level": "exploration",
    "assumptions": [
        "the scripted net.Conn stands for the real socket: Read hands out scripted chunks and errors, Write records; concurrency between the reading and the writing goroutine of a real connection is represented by the order of the calls (tracingHTTP2Conn serialises frame handling under one mutex)",
        "golang.org/x/net/http2 Framer (write side) and hpack.Encoder produce well-formed frames; they are used only to build scripts, never as the oracle",
        "arbitrary byte strings are enumerated completely only up to 2 (quick) / 3 (thorough) bytes plus every single-field corruption of well-formed frames; longer arbitrary inputs are outside the bound",
        "a Read of the underlying conn may return n > 0 together with an error (io.Reader contract; crypto/tls does so for the last record before close_notify); after a non-timeout read error the scripts perform no further I/O but Close",
        "HPACK dynamic-table-size updates in the scripts are legal: every size is within the SETTINGS_HEADER_TABLE_SIZE the receiving endpoint advertised (4096 when absent) and the advertisement was acknowledged before the update",
        "the retry collector's timer runs in testing/synctest virtual time; no wall-clock time is waited for",
    ],
    "manifest": {
        "engine": "ENUM",
        "technique": "bounded-exhaustive enumeration against a reference model",
        "text": "TracingHTTP2Conn over a scripted net.Conn, as client and as server. (a) every byte string of length <=2/<=3 after/instead of the client preface, every single-field corruption (type, each flag bit, length +-1, stream id, payload ends, preface bytes) of every frame of 17 two-call exchanges (two of them with header blocks of 3-4 fragments, one with HPACK dynamic-table-size updates in both directions) with the connection ending after any later frame, every composition of 19-24 byte exchanges into calls, every I/O outcome at every call: Read/Write/Close must return exactly what the underlying conn returned, no panic. (b) two calls (streams 1 and 3; request headers, response headers, trailers and trailers-only blocks as HEADERS alone, HEADERS + 1 CONTINUATION and HEADERS + 2..3 CONTINUATION (blocks of 3 and 4 fragments, cut anywhere, also inside a field), 0-2 DATA, one enveloped message spread over 3 and 4 DATA frames of its stream (request side, response side, both; alone and followed by a second message in its own frame or starting in the frame of the last piece), END_STREAM variants, trailers / trailers-only, RST_STREAM by either side, REFUSED_STREAM + retry, GOAWAY(last-stream-id 1), late frames (response HEADERS / DATA / trailers, also with CONTINUATION, that were in flight and arrive after the client's RST_STREAM or after the GOAWAY that dropped the stream: they belong to no traced stream but their header blocks add entries to the HPACK dynamic table which the later response blocks of the other call refer to by index), one call without test name), HPACK encoded in emission order with one hpack.Encoder per direction (dynamic table on; per-call custom fields plus fields repeated by every call), optionally following an HPACK table-size history per direction (8 quick / 24 thorough schedules: the receiver advertises SETTINGS_HEADER_TABLE_SIZE 0 / 128 / 4097 / 64 KiB / 2^32-1 in the prologue or in a SETTINGS frame mid-connection, the encoder announces size updates to 0, 128, 4095-4097, 16 KiB, 64 KiB, 2^32-1 at the start of header block 0, 1 or 2 of the direction, shrink then grow in one block or in consecutive blocks; request direction, response direction, both; also in late blocks and split over CONTINUATION frames): all well-formed interleavings x {whole runs, per frame, per byte, every single cut} x {client, server}; connection endings Close / failing Close / virtual time passing / read error {io.EOF, reset} x {in a Read of its own, together with the last chunk (whole last run, last frame, last byte, every proper suffix of the last run)}; a read timeout (0, timeout) between any two frames and (n>0, timeout) on any Read of the whole / frame partitions and at every cut of the read direction; each named call must yield exactly one completed trace equal to the script-derived model (request line, headers, request/response messages with indices, status, response headers, trailers, end/reset), the nameless call none, the retried call the retry's.",
        "note": "Table-size histories are crossed with 5 (thorough 8) shape pairs, not with every pair; error-with-last-chunk endings under all partitions and (n>0, timeout) reads only for the first/middle/last interleaving of a pair (three ending combinations for every interleaving that is the first to end with its particular run of frames; (n>0, timeout) mid-frame only for the first interleaving); (1, timeout) on every byte of the per-byte partition is not enumerated. Scripted conn instead of a socket; frame scripts built with x/net/http2 + hpack encoders (trusted as generators only); every single cut is combined with all interleavings only for a 6x6 set of shapes (thorough) and with the first/middle/last interleaving otherwise. Shapes with header blocks of 3-4 fragments are paired with 5 partner shapes and with each other, late shapes with 3 (thorough 9) partner shapes and each other, shapes with a message in 3-4 DATA frames with 1-2 partner shapes, not with every shape. Response payload bytes are small values so that a tracer that loses its place in a body cannot be made to allocate gigabytes by a bogus envelope length (it is reported through its wrong messages).",
        "design_ref": "DESIGN.md §2.2, §4 C15",
    },
    "units": [
        {
            "name": "c15-attr", "pkg": TR, "harness": HARNESS,
            "test": "^TestVerifC15Attr$",
            "shards": {"quick": 16, "thorough": 16},
            "budget_s": {"quick": 28, "thorough": 240},
        },
        {
            "name": "c15-transp", "pkg": TR, "harness": HARNESS,
            "test": "^TestVerifC15Transp$",
            "shards": {"quick": 16, "thorough": 16},
            "budget_s": {"quick": 32, "thorough": 240},
        },
    ],
}
