RS = "internal/app/referenceserver"

CHECK = {
    "level": "exploration",
    "assumptions": [
        "unit c12-enum: requests are synthetic *http.Request values handed to the middleware stack rawResponder(referenceServerChecks(inner)) exactly as createServer installs it; net/http's own parsing (header canonicalisation, whitespace trimming, trailer delivery) is simulated, not exercised",
        "unit c12-chain: the servers createServer builds (reference mode, no tracer) listen on 127.0.0.1:0 and are driven by net/http's HTTP/1.1 client and x/net/http2's client (h2c prior knowledge, h2 over TLS with a throw-away server certificate); HTTP/3 and client certificates are not exercised over real connections (c12-enum covers them synthetically); request bodies are one well-formed empty message, whatever the procedure answers is not judged, only the feedback",
        "test names are any text HTTP can carry unchanged as a header value (no leading/trailing whitespace, no CR/LF); in c12-chain names are the plain ASCII 'C12 Suite/...' ones",
        "the 'actual' side is restricted to what a client can put on the wire: GET only for Connect unary, client certificate only inside TLS, HTTP/3 only with TLS; a gRPC request carries 'te: trailers'",
        "the client-certificate aspect is compared only when both the expectation and the request use TLS",
        "a feedback line 'mentions' an aspect if, after the test-name prefix, it contains the aspect's word (version, method, protocol, codec, compression, tls/plain-text, cert)",
        "unit c12-conc: sequential consistency; a request is preempted only at mutex acquisitions of the packages internal and internal/app/referenceserver (compiled with the vsync shims) and, in the writer_gate scenarios, at every Write the printer issues to the server's stderr; race freedom of the code between those points is not checked here; the requests are synthetic (as in c12-enum) and are handed to referenceServerChecks(inner, internal.NewPrinter(w)) directly, the inner handler returns at once; test names are plain ASCII without ': '",
        "long histories (c12-enum, kind longhist): the distance between the two requests of a test is measured in distinct other tests (one fully matching request each) on one middleware instance; lengths are those around powers of two and ten up to 2^15+1 (thorough 2^17+1), not every length",
        "timeout grammars are those of the public specifications: Connect-Timeout-Ms = 1..10 ASCII digits; grpc-timeout = 1..8 ASCII digits followed by one of H M S m u n; 'accepted' = the timeout reaches the request info / handler context",
    ],
    "manifest": {
        "engine": "ENUM + GATE",
        "technique": "bounded-exhaustive enumeration against a reference model; stateless model checking (all lock-level interleavings) of concurrently checked requests",
        "text": "The real reference-server middleware is driven, without network, with every pair of (expected side: 3 HTTP versions x GET/POST x 3 protocols x 2 codecs x 6 compressions x TLS x client cert = 864) x (every request a client can produce, incl. Connect unary/stream/GET framing, bare gRPC content types, identity spelled out = 672) and judged by a truth table from the property text: no feedback iff all aspects agree, at least one line `<test name>: ...` mentioning every deviating aspect, every line attributable to a deviating aspect; test names as a dimension (34-token alphabet: printf verbs %d %s %v %[1]d %*d ..., %%, 100%, lone %, blank, ':', ': ', quote, backslash, braces, non-ASCII; token at the start / in the middle / at the end of the name and every ordered token pair, x one request per protocol x expected sides, plus repeat, history, overlap, trailers and invalid-timeout cases under such names: every feedback line starts with exactly `<name>: `); plus same test twice, name histories up to length 4, LONG histories on one server (test T, then N distinct other tests, then T again, then the first / middle / last of the N once more and a name never used, for N = 2^k-1, 2^k, 2^k+1, k = 4..15 (thorough: ..17, every protocol) and 10^k-1, 10^k, 10^k+1, k = 2..4 (thorough ..5): 45 histories / 230k requests in the quick tier; the first request of a name is never flagged, every later one is, however many other tests came in between), overlapping requests (2 and 3 requests of the same / of different test names in flight together, the inner handler parked on a channel, released in every order: every request after the first of a name is flagged at the moment it arrives, the others are not; channel-forced schedule, no timing), HTTP trailers, missing/empty test name (inner handler not called, error response). Timeout headers: per protocol every string of length <=4 (quick) / <=6 (thorough) over {0,1,9,H,M,S,m,u,n,+,-,space,x}, digit strings of length 7..12 with every unit / none / a bad unit, and computed boundary numbers, against a math/big grammar-and-value model (unit c12-enum). Unit c12-chain runs the same truth table through the handler chain createServer really installs (BidiStream-over-HTTP/1.1 wrapper, mux, checks, raw responder, CORS, h2c) over real connections: 6 connection kinds (HTTP/1.1 client -> HTTP/1.1 server, h2c -> HTTP/2 server, HTTP/1.1 client -> HTTP/2 server, each plain and over TLS) x all 6 RPC procedure paths (Unary, IdempotentUnary, ClientStream, ServerStream, BidiStream, Unimplemented) x 5 protocol shapes x 2 codecs x 2 (thorough: 6) compressions = 720 (2160) requests, each against 144 (thorough: 648, incl. expected client cert) expected sides; feedback lines are attributed by the unique test name after graceful shutdown. Unit c12-conc (GATE: stateless model checking of the real goroutines in a synctest bubble) serves K = 2..4 requests at the same time through the real referenceServerChecks -> internal.NewPrinter(stderr) path, the packages internal and internal/app/referenceserver compiled with gating mutexes, and executes EVERY interleaving at lock granularity (and, with the slow-writer option, at the granularity of the single Writes to stderr): K=2: every pair of request kinds (matching / 1, 2, 4 deviating aspects / trailers, which are reported after the handler ran) x same or different test name x with and without the slow writer; K=3: every assignment of names x kind triples (quick: reduced alphabet where a name repeats) and codec x 3 with the slow writer; K=4: four different deviating tests, bare repeats (thorough: all 15 name assignments x 4 programs, the largest under preemption bound 2). Each execution is judged: every line is `<name of ONE test that is due feedback>: <message naming no other test>`, no line without a name, no unterminated line, every test due feedback is named, no other is, the truth table per single-request test, the multiset of lines equals that of the same requests served one after the other in some order, every request reaches the inner handler exactly once, no deadlock, no panic. Timeout model: accepted iff in the protocol's grammar, context value = digits x unit saturating at MaxInt64 ns, header gone at the inner handler, no context deadline, createRequestInfo echoes the milliseconds.",
        "note": "c12-conc: preemption only at mutex acquisitions / stderr writes, sequential consistency. Synthetic requests (no real HTTP parsing); keyword-based notion of 'mentions the aspect'; the inner handler is a recorder, createRequestInfo is called on the context it receives as impl.go does.",
        "design_ref": "DESIGN.md §2.2, §4 C12",
    },
    "units": [
        {
            "name": "c12-enum", "pkg": RS,
            "harness": ["referenceserver/c12_test.go", "referenceserver/c12_chain_test.go"],
            "test": "^TestVerifC12$",
            "shards": {"quick": 16, "thorough": 16},
            "budget_s": {"quick": 45, "thorough": 480},
        },
        {
            "name": "c12-chain", "pkg": RS,
            "harness": ["referenceserver/c12_test.go", "referenceserver/c12_chain_test.go"],
            "test": "^TestVerifC12Chain$",
            "shards": {"quick": 16, "thorough": 16},
            "budget_s": {"quick": 40, "thorough": 420},
        },
        {
            # requests checked at the same time: K goroutines through referenceServerChecks -> internal.NewPrinter under GATE
            "name": "c12-conc", "pkg": RS, "rewrite": ["internal", RS],
            "harness": ["referenceserver/c12_test.go", "referenceserver/c12_chain_test.go", "referenceserver/c12_conc_test.go",
                        "connectconformance/gateutil_test.go@referenceserver"],
            "test": "^TestVerifC12Conc$", "gomaxprocs": 1,
            "shards": {"quick": 16, "thorough": 16},
            "budget_s": {"quick": 40, "thorough": 420},
        },
        {
            # the runner's half of the contract: expectation headers attached by runTestCasesForServer
            "name": "c12-runner-headers", "pkg": "internal/app/connectconformance", "rewrite": ["internal/app/connectconformance"],
            "harness": ["connectconformance/c11_test.go", "connectconformance/fakeproc_test.go", "connectconformance/gateutil_test.go"],
            "test": "^TestVerifC12RunnerHeaders$", "gomaxprocs": 1,
            "shards": {"quick": 4, "thorough": 8},
            "budget_s": {"quick": 40, "thorough": 120},
        },
    ],
}
