CHECK = {
    "level": "exploration",
    "assumptions": [
        "the protobuf runtime (proto.Marshal/Unmarshal, protojson, proto.Equal), encoding/base64 and net/http's header canonicalisation are trusted as oracles / reference encoders",
        "detail values, header values and codec instances outside the stated alphabets and bounds (longer strings, deeper nesting, more than 3 details / header entries) are not covered",
        "string contents: two strings per message over a 13-symbol alphabet up to length 3 (4 against four fixed strings) plus 83 fixed longer strings; interactions that need three or more special strings in one message, or longer strings, are not covered; outside the small core each (pair, shape) meets one entry point, not all seven",
        "the gRPC *wire* encoding of metadata (grpc-go's own base64 step for -bin keys) is not executed; only what the conversion helpers hand to grpc-go is observed",
        "unit c18-errwire: connect-go (client and handler) and net/http transport an error faithfully; leading / trailing spaces of a message are not demanded on the grpc-message route (HTTP field values exclude surrounding blanks and the gRPC Status-Message leaves the space unescaped) nor in the client's view when the response carries no grpc-status-details-bin; the request info detail the server appends is only checked for its type; with the JSON request codec no non-canonically encoded detail is sent (the JSON form of an Any cannot carry it to the server)",
    ],
    "manifest": {
        "engine": "ENUM",
        "technique": "bounded-exhaustive enumeration of conversion inputs, each round trip compared with the specification the input was built from",
        "text": "Errors (codes 1..16 x ~145 messages incl. every 1-byte UTF-8 string and %-strings x all ordered lists of 0-2 [thorough 0-3] details from a pool of 8; plus a grammar of valid but non-canonical encodings - field records reversed / rotated, an unknown field in front / between / behind, non-minimal varints in tags, length prefixes and values, a scalar written explicitly with its default value, a singular field given twice, a packed field written unpacked - applied to 13 values of 11 registered message types, each such detail alone, before / behind a canonical detail and twice) are sent through Proto->Connect->Proto, ConvertErrorToProtoError, Proto->gRPC status->Proto and the mixed chains; header lists (<=2 [3] entries; names in 3 case variants, repeated keys, -bin keys; all 1-byte and a sample of 2-6 byte binary values, so that every padding situation occurs; the base64 text of the -bin values of a header list written unpadded, padded, mixed and in the URL-safe alphabet [for which the raw bytes or the verbatim text are accepted]) through AddHeaders/ConvertToProtoHeader, ProtoHeader->MD->ProtoHeader, MD->ProtoHeader->MD (also converting the same object twice) and AppendToOutgoingContext; PercentEncodeMessage on every byte string of length <=2 and all 3-byte strings over a 16 [40] byte alphabet with an independent decoder; both strict codecs on every message descriptor of connectrpc.conformance.v1 x a bounded instance generator (each field alone, pairs, all-set; nesting <=2) for Marshal/MarshalAppend/MarshalStable plus unknown fields of every wire type (top level and nested) and unknown JSON keys; and Unmarshal(Marshal(m)) into a destination that is NOT fresh: pre-populated with every other single-field / all-fields-set instance of the type (singular, repeated, oneof and sub-message fields set), one destination re-used for sequences of three different messages (compared after every step), and re-used after an input rejected for an unknown field (fresh and pre-populated) — the result must equal m each time; two-call histories for every codec entry point on one goroutine (GOMAXPROCS 1, collector off, so pooled / package-level scratch state reaches the next call): d1 = E1(m1) for E1 in {Marshal, MarshalAppend(nil), MarshalAppend(prefix), MarshalStable}, then a second call X(m2) with a different message (empty, all-fields-set, a single-field instance; X = the four encoders and Unmarshal), THEN d1 is judged (bytes unchanged, still decoding to m1) and so is the second result; Unmarshal(buf, dst) followed by the caller overwriting and re-using buf (dst must not change); an encoding followed by the caller overwriting the byte slices of the message in place; the CONTENT of string fields (harness c18_strings_test.go, ids codecstr/<hex first>/<hex second>): ordered pairs of strings over an alphabet of JSON-significant characters {a, blank, backslash, double quote, tab, U+0001, e-acute, colon, comma, braces, brackets} - quick: (all strings of length <=2 + 83 longer tails: every way of ending in backslashes / quotes, JSON-looking text, escape-looking text, blanks in every position) x (length <=1 + tails) in both orders plus all strings of length 3 x length <=1 in both orders (102,220 pairs); thorough: (all of length <=3 + tails) x (all of length <=2 + tails) in both orders plus all of length 4 x 4 strings in both orders - each pair placed, first serialised in front of second, in 7 message shapes (name / value of a Header, two values, two header entries, a response definition with header value + error message + expanded Any detail + trailers, error message + detail, two details, key / value of a Struct) x both strict codecs x {Marshal, MarshalAppend to nil / empty / a prefix without spare capacity / a prefix in a re-used buffer holding an earlier encoding / the re-used buffer, MarshalStable} (full product for pairs of two short-or-tail strings, one rotating entry point per shape for the rest): the codec must decode what it appended to a message equal to the specification, the prefix bytes must be untouched in the result and in the buffer handed in, the output is also judged by the protobuf runtime's own decoder. Callers of the conversions (unit c18-errwire): error response definitions (every message of the alphabet x details incl. a non-canonical encoding and a foreign URL prefix x codes 1..16 x with / without response headers / trailers x unary, client-, server-, bidi-stream with the error before or after a response) sent with a connect-go client to the real reference server (createServer; reference and normal mode; h2c and HTTP/1.1) under Connect, gRPC and gRPC-Web: every route on which a peer can read the error - the client's view converted back to the test-case form, the Connect JSON error, grpc-status + percent-decoded grpc-message (independent decoder), the google.rpc.Status inside grpc-status-details-bin - must give code, message and every detail of the definition.",
        "note": "Oracles come from the property text (identity on code/message/type URL/bytes; per-key value sequences; base64 applied exactly once, judged with encoding/base64; printable ASCII + invertibility with a hand-written decoder; proto.Equal). Foreign type-URL prefixes are only required to keep the type name. Header entries without values are not required to survive.",
        "design_ref": "DESIGN.md §2.2, §4 C18",
    },
    "units": [
        {
            "name": "c18-internal", "pkg": "internal",
            "harness": ["internal/c18_internal_test.go", "internal/c18_strings_test.go"],
            "test": "^TestVerifC18Internal$",
            "shards": {"quick": 16, "thorough": 16},
            "budget_s": {"quick": 40, "thorough": 400},
        },
        {
            "name": "c18-grpcutil", "pkg": "internal/grpcutil",
            "harness": ["grpcutil/c18_grpcutil_test.go"],
            "test": "^TestVerifC18Grpcutil$",
            "shards": {"quick": 16, "thorough": 16},
            "budget_s": {"quick": 40, "thorough": 400},
        },
        {
            # the callers of the conversions: error response definitions through the real reference server, read back on every route
            "name": "c18-errwire", "pkg": "internal/app/referenceserver",
            "harness": ["referenceserver/c18_errwire_test.go"],
            "test": "^TestVerifC18ErrWire$",
            "shards": {"quick": 16, "thorough": 16},
            "budget_s": {"quick": 40, "thorough": 400},
        },
    ],
}
