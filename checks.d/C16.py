TR = "internal/tracer"
H = ["tracer/c16_test.go", "tracer/c16_middleware_test.go", "connectconformance/gateutil_test.go@tracer"]
# unit c16-conn: the connection-ending family of C15's unit c15-conn (same test function, same harness files)
H_CONN = ["tracer/c15_common_test.go", "tracer/c15_attr_test.go", "tracer/c15_transp_test.go", "tracer/c15_conn_test.go"]

CHECK = {
    "level": "model_checking",
    "assumptions": [
        "sequential consistency; preemption only at mutex acquisitions (the tracer and the builder synchronise through their locks only) and at the harness' cancel event",
        "race freedom of the code between gates is checked by the free-running unit under the race detector",
        "a waiter whose slot is re-initialised or cleared while it waits is only constrained as far as the statement goes (never a trace after Clear; a trace of that name completed after its wait began; ends with its context)",
    ],
    "manifest": {
        "engine": "GATE + explicit-state BFS",
        "technique": "explicit-state breadth-first search over operation histories against a reference model, plus stateless model checking of concurrent programs (all lock-level interleavings, linearisation order replayed on the reference model), plus a free-running race-detector pass",
        "text": "(a1) every order of Init/Complete/Clear on 2 (3) names and Await/Cancel of 2 waiters up to depth 6 (7), merged by the canonical reference state, each replayed on the real Tracer and compared with the sequential reference after every event; (a2) every 2-thread program of 1-2 operations (3 threads x 1 in thorough) over the same alphabet from 4 initial states, with and without a canceller, under every interleaving at lock granularity, judged by replaying the observed lock-acquisition order on the reference; (b) builder event programs from 2-4 goroutines under every interleaving: Complete exactly once, nothing appended afterwards, no deadlock with a lock-sharing collector; (c) same bodies free-running with -race. Added after the seeding rounds: (a1') every history over 2 names up to depth 6 (7) WITHOUT merging, and a trace a waiter obtained must keep reading the same afterwards; (d) TracingRoundTripper / TracingHandler under GATE with scripted transports, handlers, response writers, cancellation at any moment and a waiter on a real Tracer - exactly one completion, nothing changes after hand-off, RequestCanceled completes a trace only if somebody cancelled - plus a free-running -race pass; (e) c16-consumers: testResults.fetchTrace/report histories with the report asked for at once; (f) c16-conn: every named stream of an HTTP/2 connection has exactly one completed trace once the connection is gone, under every ending.",
        "note": "Preemption only at lock acquisitions; unbounded (no preemption bound) because the programs are tiny.",
        "design_ref": "DESIGN.md §4 C16",
    },
    "units": [
        {"name": "c16-orders", "pkg": TR, "rewrite": [TR], "harness": H, "test": "^TestVerifC16Orders$",
         "shards": {"quick": 8, "thorough": 16}, "budget_s": {"quick": 60, "thorough": 600}},
        {"name": "c16-programs", "pkg": TR, "rewrite": [TR], "harness": H, "test": "^TestVerifC16Programs$", "gomaxprocs": 1,
         "shards": {"quick": 16, "thorough": 16}, "budget_s": {"quick": 60, "thorough": 900}},
        {"name": "c16-builder", "pkg": TR, "rewrite": [TR], "harness": H, "test": "^TestVerifC16Builder$", "gomaxprocs": 1,
         "shards": {"quick": 16, "thorough": 16}, "budget_s": {"quick": 60, "thorough": 900}},
        {"name": "c16-middleware", "pkg": TR, "rewrite": [TR], "harness": H, "test": "^TestVerifC16Middleware$", "gomaxprocs": 1,
         "shards": {"quick": 16, "thorough": 16}, "budget_s": {"quick": 60, "thorough": 600}},
        # the consumer in the runner (testResults.fetchTrace / report): result-table histories with tracing,
        # the report asked for at once or after everything is quiet (harness of C04)
        {"name": "c16-consumers", "pkg": "internal/app/connectconformance", "rewrite": ["internal/app/connectconformance"], "harness": ["connectconformance/c04_test.go", "connectconformance/c05_test.go", "connectconformance/peersim_test.go", "connectconformance/c11_test.go", "connectconformance/fakeproc_test.go", "connectconformance/gateutil_test.go"],
         "test": "^TestVerifC04Report$",
         "shards": {"quick": 16, "thorough": 16}, "budget_s": {"quick": 60, "thorough": 300}},
        {"name": "c16-programs-unlockgates", "pkg": TR, "rewrite": [TR], "harness": H, "test": "^TestVerifC16Programs$", "gomaxprocs": 1,
         "tiers": ["thorough"], "env": {"VERIF_GATE_UNLOCK": "1", "VERIF_TIER_OVERRIDE": "quick"},
         "shards": {"quick": 16, "thorough": 16}, "budget_s": {"quick": 60, "thorough": 240}},
        {"name": "c16-builder-unlockgates", "pkg": TR, "rewrite": [TR], "harness": H, "test": "^TestVerifC16Builder$", "gomaxprocs": 1,
         "tiers": ["thorough"], "env": {"VERIF_GATE_UNLOCK": "1", "VERIF_TIER_OVERRIDE": "quick"},
         "shards": {"quick": 16, "thorough": 16}, "budget_s": {"quick": 60, "thorough": 240}},
        {"name": "c16-middleware-race", "pkg": TR, "harness": H, "test": "^TestVerifC16MiddlewareRace$", "race": True, "tiers": ["thorough"],
         "shards": {"quick": 8, "thorough": 16}, "budget_s": {"quick": 60, "thorough": 600}},
        {"name": "c16-race", "pkg": TR, "harness": H, "test": "^TestVerifC16Race$", "race": True, "tiers": ["thorough"],
         "shards": {"quick": 8, "thorough": 16}, "budget_s": {"quick": 60, "thorough": 600}},
        # HTTP/2 connection tracer: every named stream opened on a connection completes its trace exactly once when the
        # connection goes away (EOF / reset / Close / failing Write, after every frame of two interleaved calls, both sides)
        {"name": "c16-conn", "pkg": TR, "harness": H_CONN, "test": "^TestVerifC15Conn$", "env": {"VERIF_C15_CONN": "endings"},
         "shards": {"quick": 16, "thorough": 16}, "budget_s": {"quick": 20, "thorough": 240}},
    ],
}
