CHECK = {
    "level": "fault_enumeration",
    "assumptions": [
        "a fresh, never reused instance of the underlying library (compress/gzip, compress/zlib, klauspost/compress/zstd, andybalholm/brotli, golang/snappy) is a correct codec for the algorithm the HTTP name denotes (gzip=RFC 1952, deflate=zlib RFC 1950, br, zstd, snappy framing format); it is the oracle for what the wrappers in internal/compression do around it",
        "a caller of Write owns the slice again as soon as Write returns (io.Writer contract) and may overwrite it before the next Write / Close; a peer may send, under the name of an encoding, a well-formed message of a neighbouring format - that is a malformed message for the instance that receives it",
        "single-goroutine use of one instance (as a pool hands it out); no concurrent use of the same instance; two instances are used from one goroutine with their operations interleaved (Reset and the reads that follow are separate operations), which stands for two messages in flight at a time",
        "peer unit: the reference server is started in-process through createServer (HTTP/1.1, loopback TCP) and fed by a plain net/http client with hand-built Connect unary and gRPC-Web bodies; only compressible contents are sent, so that the compressed form stays below the receive limit (the limit being applied to the compressed bytes as well is C19's known finding)",
        "operations on an instance that was never Reset (Read/Write/Close before the first Reset) are outside the pooled protocol: a panic there is recorded as an outcome, not as a violation",
        "histories with several corrupt decodes are instantiated with the diagonal and with the product of behaviour-class representatives (thorough: full product of all corruptions for two corrupt decodes up to length 3, *bytes.Buffer source), not with the full product of all corruptions",
        "the names the reference peers register with connect-go are read from the source of server.go / client.go (call sites of connect.WithCompression / WithAcceptCompression / WithSendCompression); the end-to-end use of these registrations is C01's subject",
    ],
    "manifest": {
        "engine": "ENUM",
        "technique": "bounded-exhaustive breadth-first search over operation histories of a pooled instance, with complete single-fault enumeration (every bit flip, every truncation) of the input stream, against independent decoders",
        "text": "For each of the 6 encodings and 5 inputs (empty, 1 byte, repetitive, 256 distinct bytes, 64 KB pseudo-random) every history of length <=3 (quick) / <=4 (thorough) over the operations of one compressor (Reset to buffer/io.Discard/failing sink, Write, Close) or decompressor (decode valid, decode corrupt, Reset(http.NoBody), Close, Read, pool-put) obtained once from compression.GetCompressor/GetDecompressor is replayed on a fresh instance and followed by the oracle: the decompressor must return exactly the original bytes for the valid stream, the compressor's output must be decoded to the original by an independent decoder; corrupt ranges over every single-bit flip and every proper prefix of the valid stream of the short inputs and, for every input, over the well-formed message of each neighbouring format (bare RFC 1951 deflate compressed / stored, zlib, gzip, zstd, snappy block, snappy framed, brotli, plain bytes, two gzip members, zlib with trailing bytes; own format excluded) - whether the instance rejects or tolerates it, the later valid message must decode exactly; every compressor history is run for 7 ways of handing the message to Write (the input slice itself; 1, 2, 3 pieces from ONE transfer buffer that the caller overwrites after each Write returns; io.Copy; io.CopyBuffer with a 16-byte buffer; a 16-byte bufio.Writer; quick tier: the 64 KB input only whole, in 2 pieces and by io.Copy) with the same round-trip oracle; no operation may panic. Histories over TWO instances (of the same encoding: length <=3 [4], inputs (ab300, bytes256), (empty, a) [+ (a, lcg64k)]; of two different encodings, all 30 ordered pairs: length <=2 [3]; compressors one shorter): operations {V, S Reset(valid) only, D read all, C, X, P} / {B, W, X, D} on either instance in every interleaving, the second instance created at the start or at its first use, followed by the interleaved oracle phase 0S 1S 0D 1D (0B 1B 0W 1W 0X 1X): every instance must return / emit ITS OWN input. A peer unit sends, to the reference server built by createServer {no receive limit, 200 KiB [+1 MiB]} x {plain, reference mode}, Unary requests as Connect unary and gRPC-Web, compressed with each encoding by {compression.GetCompressor, a fresh library encoder}, of serialized size 8 and 2^k-1, 2^k, 2^k+1 (k = 10..17 [..20]) up to the limit, limit-1 and limit, contents {zeros, half pseudo-random}: accepted, echoed request identical, response (same encoding offered) decodable by the library decoder. A further unit checks that the same name denotes the same algorithm in compression.GetCompressor/GetDecompressor, tracer.GetDecompressor, the reference server's checkCompression mapping, the constructor pairs the reference server and client register with connect-go, the raw-payload encoder and the independent codecs, in both directions: every producer x every consumer of the name must return the original bytes, each party that is a connect.Compressor / connect.Decompressor instance also as a POOLED instance (second message of an instance used and parked exactly as connect-go's compressionPool does: Reset(dst), bytes.Buffer.WriteTo - no Write call at all for the empty message -, Close, Reset(io.Discard); Reset(src), read, Close, Reset(http.NoBody)), for 6 inputs and for the inputs that compress best - all-zero, repeated 'a', repeated 'abc' [+ 0xFF, 'ab', 'conform'] at sizes 2^k-1, 2^k, 2^k+1, k = 10..20 [..21] (brotli and zstd expand these several thousand times; the observed ratio classes are recorded) - so that every decompressor the tree hands out (compression.GetDecompressor, tracer.GetDecompressor, registered constructors) is checked to be the exact inverse for extreme expansion ratios too.",
        "note": "Fresh library instances are trusted as oracle. Multi-corruption histories use representatives (stated in the rule). Concurrency on one instance is not explored.",
        "design_ref": "DESIGN.md §2.2, §4 C20",
    },
    "units": [
        {
            "name": "c20-hist", "pkg": "internal/compression",
            "harness": ["compression/c20_hist_test.go"],
            "test": "^TestVerifC20Hist$",
            "shards": {"quick": 16, "thorough": 16},
            "budget_s": {"quick": 50, "thorough": 500},
        },
        {
            "name": "c20-peer", "pkg": "internal/app/referenceserver",
            "harness": ["referenceserver/c20_peer_test.go", "referenceserver/c20_agree_test.go"],
            "test": "^TestVerifC20Peer$",
            "shards": {"quick": 8, "thorough": 16},
            "budget_s": {"quick": 30, "thorough": 200},
        },
        {
            "name": "c20-agree", "pkg": "internal/app/referenceserver",
            "harness": ["referenceserver/c20_agree_test.go"],
            "test": "^TestVerifC20Agree$",
            "shards": {"quick": 8, "thorough": 16},
            "budget_s": {"quick": 40, "thorough": 300},
            "overlap": True,   # light (about 25 CPU-seconds in the quick tier): runs beside c20-hist / c20-peer
        },
    ],
}
