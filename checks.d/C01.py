"""C01 — reference implementations pass every embedded test permutation (MATRIX).

Builds the five binaries from the current tree and invokes the runner exactly
as the Makefile's runservertests / runclienttests do (the grpc-web *client* run
needs Node and cannot be built offline). The space is finite: the thorough tier
enumerates it completely, the quick tier a reduced HTTP/TLS/compression matrix.
"""
import json, os, re, subprocess, time

TOTAL_RE = re.compile(r"Total cases: (\d+)\n(\d+) passed, (\d+) failed")
COMPUTED_RE = re.compile(r"Computed (\d+) test case permutation")
FILTERED_RE = re.compile(r"Filtered tests to (\d+) test case permutation")
NORUN_RE = re.compile(r"Another (\d+) could not be run")
EXPF_RE = re.compile(r"Another (\d+) failed as expected")

QUICK_CONFIG = """features:
  versions:
    - HTTP_VERSION_1
    - HTTP_VERSION_2
    - HTTP_VERSION_3
  protocols:
    - PROTOCOL_CONNECT
    - PROTOCOL_GRPC
    - PROTOCOL_GRPC_WEB
  codecs:
    - CODEC_PROTO
    - CODEC_JSON
  compressions:
    - COMPRESSION_IDENTITY
  supportsTls: true
  supportsTlsClientCerts: false
  supportsH2c: true
  supportsConnectGet: true
  supportsMessageReceiveLimit: true
  supportsHalfDuplexBidiOverHttp1: true
"""


QUICK_COMPRESSION_CONFIG = """features:
  versions:
    - HTTP_VERSION_2
  protocols:
    - PROTOCOL_CONNECT
    - PROTOCOL_GRPC
  codecs:
    - CODEC_PROTO
  compressions:
    - COMPRESSION_IDENTITY
    - COMPRESSION_GZIP
    - COMPRESSION_BR
    - COMPRESSION_ZSTD
    - COMPRESSION_DEFLATE
    - COMPRESSION_SNAPPY
  supportsTls: false
  supportsH2c: true
  supportsConnectGet: true
  supportsMessageReceiveLimit: true
"""


QUICK_TLS_CONFIG = """features:
  versions:
    - HTTP_VERSION_1
    - HTTP_VERSION_2
  protocols:
    - PROTOCOL_CONNECT
    - PROTOCOL_GRPC
  codecs:
    - CODEC_PROTO
  compressions:
    - COMPRESSION_IDENTITY
  supportsTls: true
  supportsTlsClientCerts: true
  supportsH2c: true
"""


def build(repo, work, goenv):
    bindir = os.path.join(work, "bin")
    os.makedirs(bindir, exist_ok=True)
    env = goenv()
    p = subprocess.run(["go", "build", "-o", bindir + "/", "./cmd/..."], cwd=repo, env=env, capture_output=True, text=True)
    if p.returncode != 0:
        raise RuntimeError("go build ./cmd/... failed:\n" + p.stdout + p.stderr)
    return bindir


def tzif(offset_s, abbr=b"FIX"):
    """A TZif (version 1) file describing one fixed offset; Go loads it when TZ is an absolute path."""
    import struct
    return b"TZif" + b"\0" + b"\0" * 15 + struct.pack(">6l", 0, 0, 0, 0, 1, len(abbr) + 1) + struct.pack(">lBB", offset_s, 0, 0) + abbr + b"\0"


def runner(bindir, repo, conf, mode, known, impl, extra=None, timeout=3600, env=None):
    cmd = [os.path.join(bindir, "connectconformance"), "-v", "--conf", conf, "--mode", mode, "--trace"]
    if known:
        cmd += ["--known-failing", "@" + known]
    cmd += list(extra or [])
    cmd += ["--", os.path.join(bindir, impl)]
    t0 = time.time()
    try:
        p = subprocess.run(cmd, cwd=repo, capture_output=True, text=True, timeout=timeout, env=(dict(os.environ, **env) if env else None))
        rc, out, err = p.returncode, p.stdout, p.stderr
    except subprocess.TimeoutExpired as e:
        rc, out, err = -9, (e.stdout or b"").decode("utf8", "replace") if isinstance(e.stdout, bytes) else (e.stdout or ""), "TIMEOUT"
    return rc, out, err, time.time() - t0


def parse(out):
    res = {"total": None, "passed": None, "failed": None, "computed": None, "filtered": None, "norun": 0, "expected_failures": 0}
    m = TOTAL_RE.search(out)
    if m:
        res["total"], res["passed"], res["failed"] = int(m.group(1)), int(m.group(2)), int(m.group(3))
    m = COMPUTED_RE.search(out)
    if m:
        res["computed"] = int(m.group(1))
    m = FILTERED_RE.search(out)
    if m:
        res["filtered"] = int(m.group(1))
    m = NORUN_RE.search(out)
    if m:
        res["norun"] = int(m.group(1))
    m = EXPF_RE.search(out)
    if m:
        res["expected_failures"] = int(m.group(1))
    res["failed_names"] = re.findall(r"^FAILED: (.*?)(?::| was expected to fail but did not)$", out, flags=re.M)
    res["info_names"] = re.findall(r"^INFO: (.*?) failed \(as expected\):$", out, flags=re.M)
    return res


def matrix(unit, work, tier, seed, repo, goenv):
    bindir = build(repo, work, goenv)
    ref_conf = os.path.join(repo, "testing/reference-impls-config.yaml")
    if tier == "quick":
        ref_conf = os.path.join(work, "quick-reference-config.yaml")
        open(ref_conf, "w").write(QUICK_CONFIG)
    runs = [
        ("reference/server", ref_conf, "server", "testing/referenceserver-known-failing.txt", "referenceserver"),
        ("grpc/server", "testing/grpc-impls-config.yaml", "server", "testing/grpcserver-known-failing.txt", "grpcserver"),
        ("grpc-web/server", "testing/grpc-web-server-impl-config.yaml", "server", "testing/grpcserver-web-known-failing.txt", "grpcserver"),
        ("reference/client", ref_conf, "client", "testing/referenceclient-known-failing.txt", "referenceclient"),
        ("grpc/client", "testing/grpc-impls-config.yaml", "client", "testing/grpcclient-known-failing.txt", "grpcclient"),
    ]
    if tier == "quick":
        # the reduced matrix above has identity only: a second, small pass runs every suite
        # under all six compressions (HTTP/2 cleartext, proto codec)
        comp_conf = os.path.join(work, "quick-compression-config.yaml")
        open(comp_conf, "w").write(QUICK_COMPRESSION_CONFIG)
        runs += [
            ("reference-compressions/server", comp_conf, "server", "testing/referenceserver-known-failing.txt", "referenceserver"),
            ("reference-compressions/client", comp_conf, "client", "testing/referenceclient-known-failing.txt", "referenceclient"),
        ]
    if tier == "quick":
        # and a third one with TLS client certificates next to plain TLS and cleartext, one server at a time
        tls_conf = os.path.join(work, "quick-tls-config.yaml")
        open(tls_conf, "w").write(QUICK_TLS_CONFIG)
        tls_extra = ["--max-servers", "1", "--run", "TLS Client Certs/**", "--run", "Basic/**", "--run", "Errors/**"]
        runs += [
            ("reference-tls-certs/server", tls_conf, "server", "testing/referenceserver-known-failing.txt", "referenceserver", tls_extra),
            ("reference-tls-certs/client", tls_conf, "client", "testing/referenceclient-known-failing.txt", "referenceclient", tls_extra),
        ]
    # The process environment is an input too: the same small pass (Basic/** with cleartext, TLS and client
    # certificates) under a runtime with one CPU, and under local time zones chosen so that the local calendar
    # date is one day ahead of / behind the UTC date at the moment of the run (fixed-offset TZif files; the
    # clock is only read to choose the offsets, it is not an oracle).
    env_conf = os.path.join(work, "env-tls-config.yaml")
    open(env_conf, "w").write(QUICK_TLS_CONFIG)
    tod = int(time.time()) % 86400
    tzdir = os.path.join(work, "tz")
    os.makedirs(tzdir, exist_ok=True)
    open(os.path.join(tzdir, "ahead"), "wb").write(tzif(86400 - tod + 1800))
    open(os.path.join(tzdir, "behind"), "wb").write(tzif(-(tod + 1800)))
    env_extra = ["--run", "Basic/**", "--run", "TLS Client Certs/**"]
    for ename, env in (("env-one-cpu", {"GOMAXPROCS": "1"}), ("env-date-ahead", {"TZ": os.path.join(tzdir, "ahead")}), ("env-date-behind", {"TZ": os.path.join(tzdir, "behind")})):
        runs += [
            (ename + "/server", env_conf, "server", "testing/referenceserver-known-failing.txt", "referenceserver", env_extra, env),
            (ename + "/client", env_conf, "client", "testing/referenceclient-known-failing.txt", "referenceclient", env_extra, env),
        ]
    runs += [
        ("env-one-cpu/grpc-server", "testing/grpc-impls-config.yaml", "server", "testing/grpcserver-known-failing.txt", "grpcserver", [], {"GOMAXPROCS": "1"}),
        ("env-one-cpu/grpc-client", "testing/grpc-impls-config.yaml", "client", "testing/grpcclient-known-failing.txt", "grpcclient", [], {"GOMAXPROCS": "1"}),
    ]
    only = os.environ.get("VERIF_C01_ONLY")
    rep = {"evaluations": 0, "distinct_nontrivial": 0, "samples": [], "violations": [], "exhaustive": True, "outcomes": {}, "counters": {},
           "rule": "one evaluation = one (config case x embedded test case) permutation executed by the real binaries; all permutations of a run are distinct by name; non-trivial = it ran (has a verdict)",
           "extra": {"runs": {}}, "notes": []}
    # the reference known-failing lists must be empty
    for f in ("testing/referenceserver-known-failing.txt", "testing/referenceclient-known-failing.txt"):
        body = [l for l in open(os.path.join(repo, f)).read().splitlines() if l.strip() and not l.strip().startswith("#")]
        if body:
            rep["violations"].append({"key": "reference-known-failing-not-empty:" + os.path.basename(f),
                                      "detail": "%s lists %d pattern(s); the reference implementations must pass everything" % (f, len(body)),
                                      "replay": {"file": f}})
    for run_ in runs:
        name, conf, mode, known, impl = run_[:5]
        base_extra = list(run_[5]) if len(run_) > 5 else []
        run_env = run_[6] if len(run_) > 6 else None
        if only and only not in name:
            continue
        confp = conf if os.path.isabs(conf) else os.path.join(repo, conf)
        rc, out, err, secs = runner(bindir, repo, confp, mode, os.path.join(repo, known), impl, extra=base_extra, env=run_env)
        res = parse(out)
        info = {"exit": rc, "wall_s": round(secs, 1), **{k: v for k, v in res.items() if k not in ("failed_names", "info_names")},
                "known_failing_matched": len(res["info_names"])}
        rep["extra"]["runs"][name] = info
        rp = {"run": name, "cmd": "connectconformance -v --conf %s --mode %s --trace --known-failing @%s -- %s" % (conf, mode, known, impl)}
        if res["total"] is None:
            rep["violations"].append({"key": "runner-aborted:" + name, "detail": "runner exit %s without totals. stderr tail:\n%s\nstdout tail:\n%s" % (rc, err[-1500:], out[-1500:]), "replay": rp})
            continue
        rep["evaluations"] += res["total"]
        rep["distinct_nontrivial"] += res["total"]
        rep["outcomes"]["%s:passed" % name] = res["passed"]
        rep["outcomes"]["%s:failed_as_expected" % name] = res["expected_failures"]
        expected_total = res["filtered"] if res["filtered"] is not None else res["computed"]
        # failures: re-run each in isolation (up to 3 times) so that a load-induced timeout on a
        # timing-sensitive case is not reported, while a deterministic failure always is
        remaining = list(dict.fromkeys(res["failed_names"]))
        for rnd in range(3):
            if not remaining:
                break
            still = []
            for i in range(0, len(remaining), 40):
                chunk = remaining[i:i + 40]
                extra = [a for a in base_extra[:2] if base_extra[:1] == ["--max-servers"]]
                for fn in chunk:
                    extra += ["--run", fn]
                rc2, out2, err2, _s = runner(bindir, repo, confp, mode, os.path.join(repo, known), impl, extra=extra, timeout=1800, env=run_env)
                r2 = parse(out2)
                if r2["total"] is None:
                    still += chunk  # the re-run itself broke: keep them as failing
                    continue
                still += [fn for fn in chunk if fn in r2["failed_names"]]
                if r2["norun"]:
                    still += [fn for fn in chunk if fn not in still]
            if len(still) < len(remaining):
                rep["notes"].append("%s: re-run %d of the failing cases in isolation: %d of %d still fail" % (name, rnd + 1, len(still), len(remaining)))
            remaining = still
        persistent = remaining
        healed = [fn for fn in dict.fromkeys(res["failed_names"]) if fn not in persistent]
        if healed:
            # They pass on their own. Either the machine was loaded (timing cases), or the failure
            # depends on what ran before in the same processes (state carried across test cases).
            # Run the whole invocation once more: what fails again in the full run is reported.
            again = list(healed)
            out3 = ""
            for _round in range(2):
                if not again:
                    break
                rc3, out3, err3, secs3 = runner(bindir, repo, confp, mode, os.path.join(repo, known), impl, extra=base_extra, env=run_env)
                r3 = parse(out3)
                again = [fn for fn in again if fn in (r3["failed_names"] or [])]
            if again:
                rep["notes"].append("%s: %d case(s) fail in three full runs but pass when run alone: order/history dependent" % (name, len(again)))
                for fn in again[:5]:
                    m = re.search(r"^FAILED: " + re.escape(fn) + r".*?(?=^FAILED: |^INFO: |^Total cases)", out3, flags=re.M | re.S)
                    rep["violations"].append({"key": "failure-only-in-full-run:%s:%s" % (name, fn),
                                              "detail": "%s: fails in three consecutive full runs, passes when run alone (depends on what ran before it in the same process): %s" % (name, (m.group(0) if m else fn)[:2000]),
                                              "replay": dict(rp, test=fn)})
            healed = [fn for fn in healed if fn not in again]
        if res["failed_names"] and not persistent and healed:
            rep["notes"].append("%s: %d case(s) failed in the full run but passed when re-run in isolation (load-induced): %s" % (name, len(set(res["failed_names"])), sorted(set(res["failed_names"]))[:5]))
        for fn in persistent[:10]:
            m = re.search(r"^FAILED: " + re.escape(fn) + r".*?(?=^FAILED: |^INFO: |^Total cases)", out, flags=re.M | re.S)
            rep["violations"].append({"key": "unexpected-failure:%s:%s" % (name, fn),
                                      "detail": "%s: %s" % (name, (m.group(0) if m else fn)[:2500]), "replay": dict(rp, test=fn)})
        if len(persistent) > 10:
            rep["notes"].append("%s: %d further failing cases not listed" % (name, len(persistent) - 10))
        if expected_total is not None and res["total"] + res["norun"] != expected_total and not persistent:
            rep["violations"].append({"key": "permutations-not-all-run:" + name,
                                      "detail": "%s: the runner computed %s permutation(s) but reports %s total + %s could-not-run" % (name, expected_total, res["total"], res["norun"]), "replay": rp})
        if res["norun"] and not persistent:
            rep["violations"].append({"key": "could-not-run:" + name, "detail": "%s: %d case(s) could not be run\n%s" % (name, res["norun"], err[-1500:]), "replay": rp})
        if rc != 0 and not persistent and not res["failed_names"] and not res["norun"]:
            rep["violations"].append({"key": "runner-exit-nonzero:" + name, "detail": "%s: exit %s although no case failed. stderr tail:\n%s" % (name, rc, err[-1500:]), "replay": rp})
        if tier == "thorough" and name.startswith("reference/"):
            want = {"reference/server": 12998, "reference/client": 16580}[name]
            info["statement_count"] = want
            if res["total"] != want:
                rep["notes"].append("%s: %d permutations; the property statement quotes %d for the pinned corpus" % (name, res["total"], want))
        if len(rep["samples"]) < 6 and res["total"]:
            ok = re.findall(r"^INFO: (.*?) failed \(as expected\)", out, flags=re.M)
            rep["samples"].append({"run": name, "permutations": res["total"], "passed": res["passed"], "failed_as_expected": ok[:3]})
    return rep


CHECK = {
    "level": "exploration",
    "assumptions": [
        "the process environment is varied only along the CPU count and the local time zone; the wall clock is read once to choose the time-zone offsets and is not an oracle",
        "binaries built from the current tree with the repository's own tool chain (go 1.23.5)",
        "the grpc-web client run of the Makefile needs Node (npm run build) and cannot be built offline; the gRPC-Web server peer and both gRPC peers are covered",
        "a failure is reported only if it persists in 3 isolated re-runs (--run <name>), so load-induced timeouts on timing cases do not count",
        "exactness of the known-failing lists is enforced by the runner itself (a listed case that passes is FAILED, an unmatched pattern is an error), so exit 0 implies it",
    ],
    "manifest": {
        "engine": "MATRIX",
        "technique": "exhaustive enumeration of the finite configuration space with the real binaries (all permutations in the thorough tier, a reduced HTTP/TLS/compression matrix in the quick tier)",
        "text": "Five runner invocations exactly as the Makefile does (reference server and client with the reference config, gRPC server and client with grpc-impls-config, gRPC server with grpc-web-server-impl-config), each with --trace and its shipped known-failing file: exit 0, zero failed, every computed permutation ran (none 'could not be run'), reference known-failing lists empty. Thorough: every permutation (12,998 + 16,580 + gRPC runs). Quick: all three HTTP versions, TLS without client certs, all protocols and codecs, identity only, plus every suite under all six compressions over cleartext HTTP/2 with the proto codec. Added after the seeding rounds: a TLS client-certificate pass with one server at a time; three consecutive full runs to confirm order-dependent failures; environment passes: GOMAXPROCS=1 and fixed-offset time zones (TZif files written at run time) that put the local calendar date one day ahead of / behind the UTC date, over Basic/** and TLS Client Certs/** and the gRPC runs.",
        "note": "Timing-sensitive cases are re-run in isolation before being reported; Node-based grpc-web client excluded.",
        "design_ref": "DESIGN.md §2.4, §4 C01",
    },
    "units": [
        {"name": "c01-matrix", "kind": "script", "func": "matrix"},
    ],
}
