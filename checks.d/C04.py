CC = "internal/app/connectconformance"
H = ["connectconformance/c04_test.go", "connectconformance/c05_test.go", "connectconformance/peersim_test.go", "connectconformance/c11_test.go",
     "connectconformance/fakeproc_test.go", "connectconformance/gateutil_test.go"]

CHECK = {
    "level": "model_checking",
    "assumptions": [
        "scripted in-process peers substituted through the verif hook stand for the client/server processes",
        "the success value is computed from run() and report() exactly as Run() does (results != nil && report() && err == nil); the mapping of that boolean to the process exit status in cmd/connectconformance/main.go is two lines (os.Exit(1) when !ok) and is not executed here",
        "the truth table is evaluated on what the peers actually did in each execution (which requests reached the client, which answers were emitted, which feedback lines were written), so it is schedule-independent",
        "a client that exits with a non-zero status after having answered everything is left undefined by the statement and is not generated",
    ],
    "manifest": {
        "engine": "PEERSIM (GATE)",
        "technique": "explicit enumeration of all fate/marking/feedback/process-fate assignments, each explored over all orders of peer events by the controlled scheduler (stateless model checking of the real run()/report())",
        "text": "Every assignment of {pass, assertion failure, client-reported error, empty result, never answered, server start failure} x {unmarked, known-failing, known-flaky} x {peer feedback or not} x {client exits with status 0 / non-zero after k answers} to 1 case (all combinations) and 2 cases (all fates x all markings; feedback and client exit on a reduced set; 3 cases in the thorough tier) is run through the real run() and report() with one case per server instance, and ordered multi-case batches of up to 2 (3) cases through runTestCasesForServer + report() (server dies after k, client pipe closes at k, unusable server, feedback); every order of the peers' events is explored (0 preemptions quick, 1 thorough). Oracle: the reference truth table of the statement; failing cases named on FAILED lines; totals add up to the number selected.",
        "note": "Fake peers, virtual time; exit-status binding of Run()'s boolean not executed.",
        "design_ref": "DESIGN.md §2.3, §4 C04",
    },
    "units": [
        {
            "name": "c04-peersim", "pkg": CC, "rewrite": [CC], "harness": H,
            "test": "^TestVerifC04$", "gomaxprocs": 1,
            "shards": {"quick": 16, "thorough": 16},
            "budget_s": {"quick": 90, "thorough": 1500},
        },
        {
            "name": "c04-batch", "pkg": CC, "rewrite": [CC], "harness": H,
            "test": "^TestVerifC04Batch$", "gomaxprocs": 1,
            "shards": {"quick": 16, "thorough": 16},
            "budget_s": {"quick": 60, "thorough": 900},
        },
        {
            "name": "c04-report", "pkg": CC, "rewrite": [CC], "harness": H,
            "test": "^TestVerifC04Report$",
            "shards": {"quick": 16, "thorough": 16},
            "budget_s": {"quick": 60, "thorough": 300},
        },
    ],
}
