"""C04 — see DESIGN §4 C04. The PEERSIM units decide the property on run()/report(); the script unit
c04-binary evaluates the same truth table at the outermost level: the real connectconformance binary
(main.go's flag wiring and exit status) with the real reference peers."""
import importlib.util, itertools, json, os, re, subprocess, time
from concurrent.futures import ThreadPoolExecutor

_here = os.path.dirname(os.path.abspath(__file__))
_spec = importlib.util.spec_from_file_location("c01mod_c04", os.path.join(_here, "C01.py"))
c01 = importlib.util.module_from_spec(_spec)
_spec.loader.exec_module(c01)

T = "type.googleapis.com/connectrpc.conformance.v1."

BIN_CONF = """features:
  versions: [HTTP_VERSION_1]
  protocols: [PROTOCOL_CONNECT]
  codecs: [CODEC_PROTO]
  compressions: [COMPRESSION_IDENTITY]
  streamTypes: [STREAM_TYPE_UNARY]
  supportsTls: false
  supportsH2c: false
  supportsConnectGet: false
  supportsMessageReceiveLimit: false
"""


def _suite():
    def case(name, expected=None):
        c = {"request": {"testName": name, "streamType": "STREAM_TYPE_UNARY", "requestMessages": [
            {"@type": T + "UnaryRequest", "responseDefinition": {"responseData": "eA=="}, "requestData": "cmVx"}]}}
        if expected is not None:
            c["expectedResponse"] = expected
        return c
    return {"name": "Bin", "testCases": [
        case("good"), case("good2"),
        # explicit expectations that the reference peers do not meet: wrong payload; an error instead of a payload
        case("bad", {"payloads": [{"data": "enp6"}]}),
        case("bad2", {"error": {"code": "CODE_ABORTED", "message": "never"}}),
    ]}


PASSES = {"good": True, "good2": True, "bad": False, "bad2": False}


def binary_table(unit, work, tier, seed, repo, goenv):
    bindir = c01.build(repo, work, goenv)
    d = os.path.join(work, "c04-binary")
    os.makedirs(d, exist_ok=True)
    conf = os.path.join(d, "conf.yaml")
    open(conf, "w").write(BIN_CONF)
    suite = os.path.join(d, "bin_suite.yaml")
    json.dump(_suite(), open(suite, "w"))
    rep = {"evaluations": 0, "distinct_nontrivial": 0, "samples": [], "violations": [], "exhaustive": True, "outcomes": {}, "counters": {}, "notes": [],
           "rule": "the real connectconformance binary with the real reference client/server, one config case, a suite of two cases the peers pass and two they fail (explicit wrong expectations); every combination of run mode (client, server, both) x --run / --skip selection x --known-failing set x --known-flaky set (sets over the four cases, given directly or through @file) whose patterns all match a selected case; oracle: exit status 0 iff every selected case met its expectation (passes and not known-failing, or fails and known-failing/flaky), totals and FAILED lines as the table says; non-trivial = distinct (mode, selection, marking) combination"}
    names = ["good", "good2", "bad", "bad2"]
    selections = [("all", [], []), ("skip-bad", [], ["**/bad"]), ("skip-bads", [], ["**/bad", "**/bad2"]), ("run-good", ["**/good"], []),
                  ("run-good-bad", ["**/good", "**/bad"], []), ("run-bad2", ["**/bad2"], []), ("run-all-skip-good2", ["Bin/**"], ["**/good2"])]
    marksets = [[], ["bad"], ["bad2"], ["bad", "bad2"], ["good"], ["good", "bad"]]
    flakysets = [[], ["bad"], ["good"], ["bad2", "good2"]]
    if tier == "quick":
        modes = ["client", "server"]
    else:
        modes = ["client", "server", "both"]
        marksets.append(["good", "good2", "bad", "bad2"])
        flakysets.append(["good", "good2", "bad", "bad2"])

    def selected(run, skip):
        out = []
        for n in names:
            if run and ("**/" + n) not in run and "Bin/**" not in run:
                continue
            if ("**/" + n) in skip:
                continue
            out.append(n)
        return out

    jobs = []
    for mode in modes:
        for sname, run, skip in selections:
            sel = selected(run, skip)
            for kf in marksets:
                for kfl in flakysets:
                    if any(n not in sel for n in kf + kfl):
                        continue  # a pattern that matches nothing selected is an error of its own (C08)
                    if set(kf) & set(kfl):
                        continue  # a case marked both ways is rejected as ambiguous before anything runs (C08)
                    for via_file in ([False, True] if (kf or kfl) and sname in ("all", "skip-bad") else [False]):
                        jobs.append((mode, sname, run, skip, sel, kf, kfl, via_file))

    def one(job):
        mode, sname, run, skip, sel, kf, kfl, via_file = job
        cmd = [os.path.join(bindir, "connectconformance"), "--conf", conf, "--mode", mode, "--test-file", suite]
        for r in run:
            cmd += ["--run", r]
        for r in skip:
            cmd += ["--skip", r]
        tag = "%s-%s-%s-%s" % (mode, sname, "+".join(kf) or "none", "+".join(kfl) or "none")
        if via_file:
            for flag, lst, ext in (("--known-failing", kf, "kf"), ("--known-flaky", kfl, "kfl")):
                if lst:
                    fn = os.path.join(d, "%s.%s.txt" % (tag, ext))
                    open(fn, "w").write("# patterns\n" + "\n".join("**/" + n for n in lst) + "\n")
                    cmd += [flag, "@" + fn]
        else:
            for n in kf:
                cmd += ["--known-failing", "**/" + n]
            for n in kfl:
                cmd += ["--known-flaky", "**/" + n]
        cmd.append("--")
        if mode == "client":
            cmd += [os.path.join(bindir, "referenceclient")]
        elif mode == "server":
            cmd += [os.path.join(bindir, "referenceserver")]
        else:
            cmd += [os.path.join(bindir, "referenceclient"), "----", os.path.join(bindir, "referenceserver")]
        try:
            p = subprocess.run(cmd, cwd=repo, capture_output=True, text=True, timeout=600)
            rc, out, err = p.returncode, p.stdout, p.stderr
        except subprocess.TimeoutExpired:
            rc, out, err = -9, "", "TIMEOUT"
        return job, cmd, rc, out, err

    nthreads = 8
    with ThreadPoolExecutor(nthreads) as ex:
        results = list(ex.map(one, jobs))
    for (mode, sname, run, skip, sel, kf, kfl, via_file), cmd, rc, out, err in results:
        rep["evaluations"] += 1
        rep["distinct_nontrivial"] += 1
        def ok(n):
            if n in kf:
                return not PASSES[n]
            if n in kfl:
                return True
            return PASSES[n]
        want_ok = all(ok(n) for n in sel)
        want_failed = sorted(n for n in sel if not ok(n))
        res = c01.parse(out)
        got_failed = sorted(set(fn.rsplit("/", 1)[-1] for fn in res["failed_names"]))
        rp = {"cmd": " ".join(cmd), "mode": mode, "selection": sname, "known_failing": kf, "known_flaky": kfl, "via_file": via_file}
        key = None
        if rc not in (0, 1):
            key, detail = "binary-exit-status-other", "exit status %s" % rc
        elif (rc == 0) != want_ok:
            key, detail = ("binary-succeeds-although-a-case-missed-its-expectation" if rc == 0 else "binary-fails-although-every-case-met-its-expectation"), "exit status %s, the table says %s" % (rc, "success" if want_ok else "failure")
        elif res["total"] != len(sel):
            key, detail = "binary-total", "report says %s cases in total, %d were selected (%s)" % (res["total"], len(sel), sel)
        elif got_failed != want_failed:
            key, detail = "binary-failed-lines", "FAILED lines name %s, the table says %s" % (got_failed, want_failed)
        elif res["failed"] != len(want_failed):
            key, detail = "binary-failed-count", "report counts %s failed, the table says %d" % (res["failed"], len(want_failed))
        rep["outcomes"]["rc=%s failed=%s" % (rc, len(got_failed))] = rep["outcomes"].get("rc=%s failed=%s" % (rc, len(got_failed)), 0) + 1
        if key:
            rep["violations"].append({"key": key, "detail": "%s | mode=%s selection=%s (%s) known-failing=%s known-flaky=%s via_file=%s\nstdout tail:\n%s\nstderr tail:\n%s" % (detail, mode, sname, sel, kf, kfl, via_file, out[-1200:], err[-600:]), "replay": rp})
        if len(rep["samples"]) < 3 and (kf or kfl):
            rep["samples"].append(rp)
    return rep


CC = "internal/app/connectconformance"
H = ["connectconformance/c04_test.go", "connectconformance/c05_test.go", "connectconformance/peersim_test.go", "connectconformance/c11_test.go",
     "connectconformance/fakeproc_test.go", "connectconformance/gateutil_test.go"]

CHECK = {
    "level": "model_checking",
    "assumptions": [
        "scripted in-process peers substituted through the verif hook stand for the client/server processes",
        "the success value is computed from run() and report() exactly as Run() does (results != nil && report() && err == nil); the mapping of that boolean to the process exit status and the wiring of the command-line flags in cmd/connectconformance/main.go is executed by the script unit c04-binary only (real binaries, small truth table)",
        "the truth table is evaluated on what the peers actually did in each execution (which requests reached the client, which answers were emitted, which feedback lines were written), so it is schedule-independent",
        "a client that exits with a non-zero status after having answered everything is left undefined by the statement and is not generated",
    ],
    "manifest": {
        "engine": "PEERSIM (GATE)",
        "technique": "explicit enumeration of all fate/marking/feedback/process-fate assignments, each explored over all orders of peer events by the controlled scheduler (stateless model checking of the real run()/report())",
        "text": "Every assignment of {pass, assertion failure, client-reported error, empty result, never answered, server start failure} x {unmarked, known-failing, known-flaky} x {peer feedback or not} x {client exits with status 0 / non-zero after k answers} to 1 case (all combinations) and 2 cases (all fates x all markings; feedback and client exit on a reduced set; 3 cases in the thorough tier) is run through the real run() and report() with one case per server instance, and ordered multi-case batches of up to 2 (3) cases through runTestCasesForServer + report() (server dies after k, client pipe closes at k, unusable server, feedback); every order of the peers' events is explored (0 preemptions quick, 1 thorough). Oracle: the reference truth table of the statement; failing cases named on FAILED lines; totals add up to the number selected. Added after the seeding rounds: client-reported errors with empty / blank / multi-line text; result-table histories with tracing, the report asked for at once or after quiescence; a runner stderr that takes 4 / 30 virtual seconds per line; unit c04-binary: selection x known-failing x known-flaky x mode through the real connectconformance binary and reference peers (flag wiring and exit status of main.go).",
        "note": "Fake peers, virtual time; plus c04-binary: the truth table (selection x known-failing x known-flaky x mode) through the real binary and the real reference peers, exit status included.",
        "design_ref": "DESIGN.md §2.3, §4 C04",
    },
    "units": [
        {"name": "c04-binary", "kind": "script", "func": "binary_table"},
        {
            "name": "c04-peersim", "pkg": CC, "rewrite": [CC], "harness": H,
            "test": "^TestVerifC04$", "gomaxprocs": 1,
            "shards": {"quick": 16, "thorough": 16},
            "budget_s": {"quick": 90, "thorough": 1500},
        },
        {
            "name": "c04-batch", "pkg": CC, "rewrite": [CC], "harness": H,
            "test": "^TestVerifC04Batch$", "gomaxprocs": 1,
            "shards": {"quick": 16, "thorough": 16},
            "budget_s": {"quick": 60, "thorough": 900},
        },
        {
            "name": "c04-report", "pkg": CC, "rewrite": [CC], "harness": H,
            "test": "^TestVerifC04Report$",
            "shards": {"quick": 16, "thorough": 16},
            "budget_s": {"quick": 60, "thorough": 300},
        },
    ],
}
