RC = "internal/app/referenceclient"
H = "referenceclient/"

CHECK = {
    "level": "exploration",
    "assumptions": [
        "well-formedness is judged by encoders / a reference model written from the Connect, gRPC (PROTOCOL-HTTP2) and gRPC-Web specifications and RFC 7230 / 8259 / 4648, not from wire_details.go",
        "malformation classes are those the property names and wire_details.go claims to report; each mutant differs from a silent base rendering in exactly one place, and 'flagged' means at least one feedback message (not a particular wording)",
        "the reference server is exercised in-process through RunInReferenceMode on loopback, plain text, HTTP/1.1 and h2c, identity encoding; TLS and HTTP/3 are outside this check; gzip-compressed unary error bodies and end-stream messages are exercised over a scripted transport only (stages histories / sizes)",
        "histories: the verdict about a response is taken to be a function of that response alone (the property speaks about 'a well-formed body / message / block', not about what was examined before); histories are bounded to one (thorough: two) abnormal response(s) + the judged response + two neutral calls, in one process on one goroutine with GOMAXPROCS=1 and the collector off, which makes the hand-off of recycled (sync.Pool) objects between consecutive calls deterministic; state that survives only across goroutines / Ps, or only after a collection, is outside the bound",
        "sizes: thresholds are looked for at powers of two 2^10..2^20 (thorough 2^22), one byte (thorough two) either side, measured on the examined unit (error body, end-stream payload, trailer block, field set rendered as lines) and, for enveloped formats, also on the envelope; limits at other values or beyond 1 MiB (4 MiB) are outside the bound; the large detail is a StringValue (go-cmp walks a bytes field element by element, 0.6 s per 256 KiB)",
        "encodings (round 4): the verdict about a compressed unary error body / end-stream message / trailer block is taken to be a function of its CONTENT: every encoding the codec's own specification allows (RFC 1952 multi-member gzip and optional header fields, RFC 8878 concatenated and skippable zstd frames, several deflate / brotli blocks, snappy framing with repeated stream identifier, uncompressed, padding and reserved skippable chunks) must draw the feedback of the plain content; legality of every variant is established by decoding it with the codec library itself (compress/gzip, compress/zlib, klauspost zstd, andybalholm brotli, golang/snappy: trusted), not with internal/compression; contents are 7 + 7 + 9 fixed documents of 2..~330 bytes, split into two pieces at every offset and into three at up to 28 representative offset pairs; preset dictionaries, contents above one block / window, and gRPC-Web 'text' (base64) bodies are outside the bound",
        "spellings (round 4): legal Content-Type spellings are those of RFC 9110 section 8.3 (case-insensitive type/subtype, parameters, optional blanks around ';', quoted values) and the protocols' own codec suffixes; the spelling must not create feedback (a response draws what it draws under the canonical spelling, or nothing where the code leaves it unexamined); responses carrying HTTP trailers are crossed only with the spellings of the gRPC grammar ('application/grpc' ['+' codec]) because gRPC defines its content type literally and the examiner reports trailers on anything else by design; leading / trailing blanks of the whole value (removed by any HTTP parser) and several Content-Type fields are not enumerated",
        "typeurls (round 5): google/protobuf/any.proto asks of a type URL only that it contains a '/' and that its last path segment is the full type name; every prefix ending in '/' (default, other host, host with path, several segments, scheme, bare '/') therefore names the same type, in the '@type' of a debug member in Any form, in grpc-status-details-bin and inside detail messages; a URL without any '/' is run for robustness and route agreement only; details whose own JSON form accepts arbitrary members or is itself an Any (Struct, Any) are crossed with the message form of the debug member only (the examiner cannot tell the two forms apart for them, see its NOTE)",
        "statuses (round 5): a Connect unary response with any HTTP status other than 200 and Content-Type application/json carries the Error JSON (Connect protocol, Unary-Response; connect-go reads it so); statuses 201..599 that can carry a body (not 204 / 304), no Location header; statuses below 200 and above 599 are outside the bound; the verdict about the body is taken not to depend on the status",
        "arbitrary input is bounded: all byte strings of length <= 2, all strings of length <= 4 (quick) / 5 (thorough) over a 13-symbol JSON/trailer alphabet, plus typed grammars; longer arbitrary input is outside the bound (DESIGN.md §5)",
        "detail types are registered ones (the property's quantifier); unregistered types with a debug member are exercised for robustness only",
    ],
    "manifest": {
        "engine": "ENUM",
        "technique": "bounded-exhaustive enumeration against reference encoders / a reference model",
        "text": "In-package harness of the reference client's wire examiners (examineConnectError, examineConnectEndStream, "
                "examineGRPCEndStream, checkGRPCStatus, checkBinaryMetadata, checkNoDuplicateKeys, examineWireDetails). "
                "(1) An error grid (16 codes x {every 1-byte UTF-8 message, every pair over a 12-symbol alphabet incl. %, space, DEL, NUL, U+0080, 3- and 4-byte runes} "
                "x 0-2 details of 9 registered types x 8 metadata maps) is rendered by the repository's own grpcStatusTrailers / grpcWebStatusEndStream / "
                "PercentEncodeMessage (called directly), by connect-go's ErrorWriter and by independent spec encoders: every rendering must draw no feedback. "
                "(2) The real reference server (RunInReferenceMode, loopback, HTTP/1.1 and h2c) is asked by a plain net/http client for a sub-grid of the errors over "
                "Connect / gRPC-Web / gRPC x unary / client-stream / server-stream x with/without response headers (about 5k-10k requests); the raw unary error JSON, "
                "end-stream message, gRPC-Web trailer block, trailers-only headers and HTTP trailers must draw no feedback, directly, through examineWireDetails with a hand-built trace "
                "and through the client's own capturing transport. (3) Every single malformation (57 classes: code missing/unknown/non-string, duplicate key at every nesting level, "
                "unknown key, wrong JSON type per member, bad type name, padded/invalid base64, truncation at every byte, LF/CR for CRLF, missing final CRLF, blank line, upper-case key, "
                "every illegal byte at every position of field names and values, bad percent-encoding, unescaped bytes, status missing/duplicated/non-numeric/out of range, "
                "details-bin disagreeing in code or message, HTTP trailers outside gRPC) of 3-5 base renderings must draw >= 1 message. (4) Typed grammars of all member forms, judged by a model; "
                "every JSON document up to a nesting bound into checkNoDuplicateKeys. (5) All short byte strings into 19 entry points: never a panic. "
                "(6) histories (round 3): the complete capture pipeline (newWireCaptureTransport -> tracer.TracingRoundTripper -> body readers -> examineWireDetails) over a scripted "
                "http.RoundTripper, no socket: every abnormal first response (every truncation, byte by byte, of the end-stream envelope of Connect and gRPC-Web base messages, plain and gzip-compressed, "
                "x {EOF, read error, reader closes early} x delivery in portions of all / 1 (/ 3) bytes; length prefix announcing more than arrives; complete message followed by a partial one; "
                "complete but malformed; compressed flag on garbage; truncated data message; truncated unary error; failed round trip: 3577 quick) x every judged second response "
                "(11 well-formed, 3 malformed; 16 with the byte-by-byte deliveries) = 57232 histories quick, each followed by two neutral calls; thorough adds more bases / portions and all histories "
                "with two abnormal responses over a 48-element alphabet. Oracle: the judged response and the neutral calls draw exactly the feedback they draw on their own "
                "(none if well-formed, >= 1 message if malformed). "
                "(7) sizes (round 3): well-formed unary error bodies (identity and gzip Content-Encoding), Connect end-stream messages (plain and gzip-compressed envelope), gRPC-Web trailer blocks, "
                "gRPC-Web trailers-only headers, gRPC HTTP trailers and trailers-only headers measuring exactly 2^k-1, 2^k, 2^k+1 bytes (enveloped formats also 2^k-6..2^k-4) for k = 10..20 "
                "(thorough: +-2 and k <= 22, also delivered in 1000-byte portions), bulk from a long message or from one large detail, rendered by spec encoders, connect-go's ErrorWriter and the "
                "repository's trailer encoders (1122 cases quick), through the same complete pipeline: no feedback. "
                "(8) encodings (round 4): 23 contents (well-formed and malformed, malformation at the start / in the middle / in the last bytes) of the three things the examiner inflates (unary error body with Content-Encoding, "
                "Connect end-stream message flag 0x03, gRPC-Web trailer block flag 0x81) x 5 codecs x every legal way of encoding the same content: gzip at every level incl. stored and Huffman-only, with FNAME / FCOMMENT / FEXTRA / FHCRC / FTEXT / MTIME+OS, "
                "several deflate blocks, TWO members split at every offset (empty first / last member included), three members, members with header fields; zstd levels, checksum on/off, streaming frames, several blocks, two frames at every offset, three frames, "
                "skippable frames before / between / after, encoder padding; zlib levels and blocks at every offset; brotli qualities, windows and meta-blocks at every offset; snappy buffered / one chunk per write / uncompressed chunks / compressed + uncompressed / "
                "two concatenated streams at every offset / padding and reserved skippable chunks; also 'negotiated but sent uncompressed' and byte-by-byte delivery (48047 cases quick, 74315 thorough), through the complete pipeline. "
                "Oracle: exactly the feedback of the same content sent plainly (none for well-formed, the same message(s) for malformed content); every variant is first decoded by the codec library itself. "
                "(9) spellings (round 4): 29 kinds of response (the 14 judged responses of (6) + unary errors identity / gzip / cut short / unknown code, 200 JSON success, HTML error page, gzip-compressed end-stream and trailer block, gRPC trailers-only and HTTP trailers, well-formed and malformed) "
                "x 21 spellings of their Content-Type (parameters charset / boundary / two / empty, quoted value, blank before ';', upper-case parameter name; UPPER / Title / mIXED case; case + parameter; codec suffixes +json / +proto / +custom / none) "
                "x delivery {whole, byte by byte} x for unary errors 17 non-200 statuses (1431 cases quick, 2770 thorough), through the complete pipeline (the capturing transport, the tracer and the examiner each decide on that header). "
                "Oracle: the response draws the feedback it draws under the canonical spelling or none at all; a well-formed one never draws any."
                " (10) typeurls (round 5): the prefix of every type URL a rendering contains as an axis: 8 prefixes (default, other host, host with path, several path segments, bare '/', scheme, default twice, none) "
                "for the details' Any (debug member in Any form with '@type', grpc-status-details-bin, the Any handed to connect-go's ErrorWriter and the repository's trailer encoders) x 8 prefixes inside detail messages (Any detail, google.rpc.Status details) "
                "x 9 detail types (+ pairs) x debug member in message form / Any form / Any form naming another type / Any form with other content; every grid point through all ~25 renderings of the well-formed stage, the hand-built trace and the complete capture pipeline "
                "(unary body, end-of-stream message, gRPC-Web block): 688 grid points / 14k cases quick. Oracle: agreeing debug member -> silence whatever the prefix; other type or other content -> feedback; pipeline = direct call. "
                "(11) statuses (round 5): HTTP status x unary error body: all 397 statuses of 201..599 that may carry a body x every body class (well-formed renderings; the 22 malformation classes of (3)), every single malformed body x 34 boundary statuses (201, 203, 299, 300, 302, 399, 400, 404, 499, 500, 503, 599 ...), "
                "over the scripted transport and, for the boundary statuses, over a REAL loopback HTTP round trip (httptest server, the client's capturing transport on http.Transport): ~25k cases quick. Oracle: feedback equals that of the examiner called directly on the body; none if well-formed, >= 1 message if malformed.",
        "note": "Oracle independent of the examiners; well-formed = what the specs allow (a raw leading/trailing blank in grpc-message is allowed by the gRPC grammar). "
                "The unexported server encoders are reached through a build-tag-guarded export shim that exists only in the overlay (harness/referenceclient/c13_srvexport.go).",
        "design_ref": "DESIGN.md §2.2, §4 C13, §5",
    },
    "units": [
        {
            "name": "c13-enum", "pkg": RC,
            "harness": [H + "c13_test.go", H + "c13_common_test.go", H + "c13_wellformed_test.go",
                        H + "c13_server_test.go", H + "c13_malformed_test.go", H + "c13_robust_test.go",
                        H + "c13_history_test.go", H + "c13_encodings_test.go", H + "c13_spelling_test.go",
                        H + "c13_typeurl_test.go", H + "c13_status_test.go"],
            # overlay-only file in the server package: exported wrappers of grpcStatusTrailers / grpcWebStatusEndStream
            "extra_files": {"internal/app/referenceserver/zz_verif_c13_srvexport.go": "harness/referenceclient/c13_srvexport.go"},
            "test": "^TestVerifC13$",
            "shards": {"quick": 16, "thorough": 16},
            "budget_s": {"quick": 45, "thorough": 480},
        },
    ],
}
