RC = "internal/app/referenceclient"

CHECK = {
    "level": "exploration",
    "assumptions": [],
    "manifest": {
        "engine": "ENUM",
        "technique": "bounded-exhaustive enumeration against a reference model",
        "text": "tbd",
        "note": "tbd",
        "design_ref": "DESIGN.md §4 C13",
    },
    "units": [
        {
            "name": "c13-enum", "pkg": RC,
            "harness": ["referenceclient/c13_test.go", "referenceclient/c13_common_test.go", "referenceclient/c13_wellformed_test.go",
                        "referenceclient/c13_server_test.go", "referenceclient/c13_malformed_test.go", "referenceclient/c13_robust_test.go"],
            "extra_files": {"internal/app/referenceserver/zz_verif_c13_srvexport.go": "harness/referenceclient/c13_srvexport.go"},
            "test": "^TestVerifC13$",
            "shards": {"quick": 16, "thorough": 16},
            "budget_s": {"quick": 40, "thorough": 420},
        },
    ],
}
