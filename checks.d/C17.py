LIB = {"internal/verif/c17lib/c17_lib.go": "harness/c17lib/c17_lib.go"}

CHECK = {
    "level": "exploration",
    "assumptions": [
        "the independent decoder (hand-written envelope parser + compress/gzip, compress/zlib, andybalholm/brotli, klauspost/zstd, golang/snappy readers used directly) is correct; 'deflate' means the zlib format, 'snappy' the framing format",
        "net/http (client and server, HTTP/1.1 and HTTP/2) and x/net/http2 (h2c) transport headers, trailers and bodies faithfully; only what the definition lists is demanded, plus absence of what the handler / original request carried",
        "HTTP forbids a body on a 204 / 304 response (the server's http.ResponseWriter refuses every body byte with http.ErrBodyNotAllowed): for these statuses the body is not demanded; over HTTP/2 (x/net h2c server and net/http's bundled TLS server) status, headers, TRAILERS and absence of handler output are demanded, over HTTP/1.1 (no body = no chunked encoding = no trailers) status, headers and absence of handler output",
        "net/http's HTTP/1.1 server removes Content-Type from a 304 response by itself (server.go suppressedHeaders, RFC 7232 4.1); a given Content-Type is therefore not demanded for status 304 over HTTP/1.1 (it is over HTTP/2)",
        "a raw response prescribed by the first request message is owed whatever becomes of the rest of the request stream (the property states no such condition): the reference servers are started with message_receive_limit = 32 KiB so that 'a later message is over the limit' is expressible; a request whose upload is aborted is only observable where the response can still be read - over HTTP/1.1 by closing the sending side of the TCP connection in the middle of a chunk (an HTTP/2 client that resets its stream has no response to look at)",
        "rawRequestSender.RoundTrip returning means 'response headers received', not 'request body sent': a server may answer before it reads (full-duplex servers, servers that decide from the request headers). The early-answering recording server is released by a channel the test closes when RoundTrip has returned - no clock -, and HTTP/1.1 full duplex is what net/http's ResponseController.EnableFullDuplex provides. Bodies of 4 MiB / 16 MiB on a fresh connection are assumed to exceed what the HTTP/2 flow-control window (1 MiB) and the loopback socket buffers of an unread connection let the client send ahead of the reader",
        "headers that middleware in front of rawResponder has put on the response before the handler ran (CORS: Vary, Access-Control-Allow-Origin / -Expose-Headers / -Allow-Credentials; the generic pre-setting middleware of unit c17-rawresp: Cache-Control, X-Raw-R) may carry the middleware's values in addition to the given ones - for exactly those names the oracle is 'the given values are a subsequence, in list order, of the values on the wire'; for every other name it stays exact equality",
    ],
    "manifest": {
        "engine": "ENUM",
        "technique": "bounded-exhaustive enumeration against a reference model over real loopback HTTP",
        "text": "Every RawHTTPResponse / RawHTTPRequest definition of a finite alphabet (status {unset,200,204,304,404,500}; header and trailer lists of 0-3 entries with 1-2 values, incl. lists that name the same header / trailer in two entries (identical spelling or differing only in case, adjacent or around another entry, the same entry twice), for which every given value is demanded in list order; body none | one message (unset/text/binary/binary_message x 7 compression values) | stream of 0-2 items with flags {0,1,2,128,255}, length unset or explicit, payload absent or present x compression; verbs, URIs incl. paths with significant percent-escapes (%2F, %3F, %23, %25; with and without a query string of their own) combined with every raw / encoded query parameter list - the escaped path the server receives (request target, URL.EscapedPath()) must be the one specified -, raw and encoded (+-base64) query parameters) is pushed through the real encoders, the real rawResponder middleware under every short adversarial handler script (set header / WriteHeader / Write / Flush / set trailer before or after choosing the raw response) and the real rawRequestSender, over HTTP/1.1, HTTP/2 (TLS) and h2c, and what a plain net/http peer receives is compared with the definition by an independent decoder. Outer glue: the reference-server unit drives the complete chain of createServer (CORS -> rawResponder -> checks -> connect-go) in three environments (HTTP/1.1, x/net h2c, net/http's HTTP/2 over TLS with the server's own certificate), with and without an Origin request header, and with raw header / trailer lists that name the headers the CORS middleware sets itself (Vary, Access-Control-Allow-Origin / -Expose-Headers / -Allow-Credentials, other case spellings, one and two entries); the raw-response unit puts a generic middleware that pre-sets headers in front of rawResponder and lists those names: every given value must reach the wire in list order. Bodyless statuses: 204 and 304 crossed with every body, header and trailer list - over HTTP/2 the given trailers must arrive although the body write is refused. Request-side faults (reference-server unit): for the client / server / bidi stream procedures, what follows the request message that prescribes the raw response is an axis - nothing, good messages, and at the second or third position (and followed by a good message where the stream can go on) a message over the server's message_receive_limit, the compressed flag without a declared encoding, the end-stream flag, a payload that is no protobuf message, the body ending inside an envelope prefix / inside the declared payload / behind a prefix that declares 4 GiB, and over HTTP/1.1 a client that half-closes the TCP connection in the middle of a chunk - crossed with status/header/trailer/body definitions in all three environments: status, headers, trailers and body must be exactly the prescribed ones and nothing of connect-go's own error response may appear. Timing axis (raw-request unit): the recording server either reads the request and then answers, or answers EARLY (flushes its response headers, waits until RoundTrip has returned, then reads), crossed with the medium body set and with large generated bodies of 64 KiB, 1 MiB, 4 MiB and 16 MiB (one message / one item / several items) over HTTP/1.1 (full duplex), HTTP/2 (TLS) and h2c on fresh connections: the server must receive exactly the prescribed bytes (length and SHA-256 computed independently). Encoder histories: 2 and 3 encodings back to back on one goroutine (GOMAXPROCS 1, no GC inside a history, so pooled / global scratch state always reaches the next encoding): a stream or message written to a destination whose k-th Write fails (every k; nothing accepted or half of the bytes accepted), once or twice in a row, then an unrelated definition written to a good buffer, which must decode to exactly its own items.",
        "note": "Bodies are compared by decoding (envelope parse + decompression with the defining libraries), not byte-for-byte with a second encoder, because compressed bytes are not canonical. Host/Content-Length/Transfer-Encoding headers are outside the alphabet (owned by net/http).",
        "design_ref": "DESIGN.md §2.2, §4 C17",
    },
    "units": [
        {
            "name": "c17-body", "pkg": "internal",
            "harness": ["internal/c17_body_test.go"], "extra_files": LIB,
            "test": "^TestVerifC17Body$",
            "shards": {"quick": 8, "thorough": 16},
            "budget_s": {"quick": 40, "thorough": 400},
        },
        {
            "name": "c17-rawresp", "pkg": "internal/app/referenceserver",
            "harness": ["referenceserver/c17_rawresp_test.go"], "extra_files": LIB,
            "test": "^TestVerifC17RawResponse$",
            "shards": {"quick": 16, "thorough": 16},
            "budget_s": {"quick": 40, "thorough": 400},
        },
        {
            "name": "c17-rawreq", "pkg": "internal/app/referenceclient",
            "harness": ["referenceclient/c17_rawreq_test.go"], "extra_files": LIB,
            "test": "^TestVerifC17RawRequest$",
            "shards": {"quick": 16, "thorough": 16},
            "budget_s": {"quick": 40, "thorough": 400},
        },
        {
            "name": "c17-refserver", "pkg": "internal/app/referenceserver",
            "harness": ["referenceserver/c17_refserver_test.go", "referenceserver/c17_rawresp_test.go"], "extra_files": LIB,
            "test": "^TestVerifC17ReferenceServer$",
            "shards": {"quick": 16, "thorough": 16},
            "budget_s": {"quick": 40, "thorough": 400},
        },
    ],
}
