CC = "internal/app/connectconformance"

CHECK = {
    "level": "exploration",
    "assumptions": [
        "a test case may pre-fill request fields 2-10 of ClientCompatRequest (unusual, but the schema and the loader accept it); client_compat.proto and docs/authoring_test_cases.md say these are populated by the runner, so the expansion must not depend on them",
        "suites are well-formed in the sense of docs/authoring_test_cases.md: relevant_* lists without repeated values, unique non-empty test names, a stream type on every test",
        "service / method: a test case naming exactly one of them may be refused (docs: 'must be specified together'); a field that is present but empty may be treated as omitted (defaults) or the suite refused - the documents do not say whether that counts as 'specified' - but a permutation never carries an empty service or method",
        "config cases never carry a connect_version_mode (true for every set parseConfig can produce in this tree), so connect_version_mode is outside the alphabet",
        "config cases with client certificates but without TLS are not inputs (client_compat.proto excludes them; the documents do not say what they would expand to)",
        "for a suite the documents call misconfigured (client certs without TLS, Connect GET without being restricted to Connect) and for two suites of one name, both a load error and the plain iff are accepted",
    ],
    "manifest": {
        "engine": "ENUM",
        "technique": "bounded-exhaustive enumeration against a reference model",
        "text": "Every suite of the directive space (3 modes x 8 protocol subsets x 8 version subsets x 4 codec subsets x 3 compression subsets x 16 relies-on combinations; quick: 4 version, 3 codec, 2 compression subsets) with 1-3 test cases over the five stream types (default and explicit service/method) is expanded by the real newTestCaseLibrary against the whole reduced universe of config cases, the sets parseConfig yields for the four shipped and six typical configs, and every singleton of a reduced universe, in all three run modes; two-suite loads whose twin differs in name and/or mode are added; every directive combination is also expanded with test-case sets whose requests pre-fill the runner-owned fields (9 templates over client_tls_creds incl. an empty message, server_tls_cert, http_version / protocol / codec / compression / message_receive_limit at low, middle and high values, so that each config case differs from some template in every field; two mixed test-case sets) against the whole reduced universe and the default config; in both tiers, suites that list two or three values on an axis (compressions {identity,gzip} in both orders, {gzip,br}, {identity,zstd}, {identity,gzip,zstd} x protocols {any, connect, connect+grpc, all three} x versions {any, 2, 1+2, all three} x codecs {any, json, proto+json} x 4 relies-on combinations x 3 modes; two test-case sets) are expanded against the whole reduced universe and every named config set, so that every axis is met both pinned (one listed value) and open with several listed values of which two, one or none occur in the config cases; in both tiers, pairs of suites with path-shaped names (suite names Echo, Echo/v2, Echo/v2/x, Alpha x test names ping, v2/ping, x/ping, v2/x/ping, ../Echo/ping, ../Echo/v2/ping; both suites pin every axis and rely on TLS so that no component separates suite name and test name, one or both leave TLS open, both fully open; same / different stream type) against the universe and the default config: the load is either refused or holds exactly one permutation per admitted (test, config case) pair, identically on five expansions; in both tiers, the request-level fields of the test-case template as an axis (phase G): use_get_http_method false / true x service x method each absent / present-but-empty / set (all nine combinations) on every stream type of the universe, also together with pre-filled protocol markers, x every relies-on combination, mode and protocol subset (versions and codecs unrestricted or pinned) against the whole universe and the default config - which permutations exist follows from the directives and the stream type alone, loadable sets kept apart from sets that may be refused; thorough adds, per template, a set carrying it on all five stream types, in the quick tier's directive combinations against the whole universe. Each result is compared with an independent model: the statement's iff per (test, config case), the documented name scheme (suite, open axes in order, test name), request fields (version, protocol, codec, compression, TLS / client-cert markers, default or given service+method, non-zero uniform receive limit), casesByServer as a partition keyed by (protocol, version, TLS, certs), allPermutations/filterGRPCImplTestCases = what the grpc-go peers support + marker component, unique names, and five repeated expansions (config cases re-ordered) being identical; for suites with pre-filled runner-owned fields the whole expansion (names, request fields incl. the content of the TLS markers and the receive limit, server groups) must equal the expansion of the same suite without them, i.e. markers and grouping are determined by the config case alone.",
        "note": "The model is written from suite.proto, client_compat.proto, docs/authoring_test_cases.md, docs/configuring_and_running_tests.md and testing/grpc-*-config.yaml. parseConfig is used only to produce realistic input sets. Raw request/response payload restrictions (parseTestSuites) and expected-response derivation are not part of this check (C02).",
        "design_ref": "DESIGN.md §2.2, §4 C07",
    },
    "units": [
        {
            "name": "c07-enum", "pkg": CC,
            "harness": ["connectconformance/c07_test.go"],
            "test": "^TestVerifC07$", "gomaxprocs": 2, "env": {"GOGC": "400"},
            "shards": {"quick": 16, "thorough": 16},
            "budget_s": {"quick": 45, "thorough": 540},
        },
        {
            # glue level: the run mode run() derives from the commands given, through the real run()
            "name": "c07-modes", "pkg": "internal/app/connectconformance", "rewrite": ["internal/app/connectconformance"],
            "harness": ["connectconformance/c07_modes_test.go", "connectconformance/c05_test.go", "connectconformance/peersim_test.go",
                        "connectconformance/c11_test.go", "connectconformance/fakeproc_test.go", "connectconformance/gateutil_test.go"],
            "test": "^TestVerifC07Modes$", "gomaxprocs": 1,
            "shards": {"quick": 8, "thorough": 8},
            "budget_s": {"quick": 60, "thorough": 120},
        },
    ],
}
