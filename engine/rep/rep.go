// Package rep is the report side of every harness: counters, samples,
// violations and the shard/tier parameters handed down by bin/check.
package rep

import (
	"encoding/json"
	"fmt"
	"os"
	"sort"
	"strconv"
	"sync"
	"time"
)

type Violation struct {
	Key    string `json:"key"`    // stable identity of *what* fails (matched against known_findings.txt)
	Detail string `json:"detail"` // human-readable description
	Replay any    `json:"replay"` // everything needed to re-run this one case
}

type Report struct {
	mu          sync.Mutex
	Unit        string           `json:"unit"`
	Shard       int              `json:"shard"`
	NShards     int              `json:"nshards"`
	Tier        string           `json:"tier"`
	Evaluations int64            `json:"evaluations"`
	Distinct    int64            `json:"distinct_nontrivial"`
	Rule        string           `json:"rule"`
	Samples     []any            `json:"samples"`
	Outcomes    map[string]int64 `json:"outcomes"` // distinct observed outcomes -> count
	Counters    map[string]int64 `json:"counters"`
	Notes       []string         `json:"notes"`
	Violations  []Violation      `json:"violations"`
	Exhaustive  bool             `json:"exhaustive"`
	Capped      string           `json:"capped,omitempty"`
	Extra       map[string]any   `json:"extra,omitempty"`
	WallS       float64          `json:"wall_s"`
	start       time.Time
	vioKeys     map[string]int
	distinctSet map[string]struct{}
}

func envInt(name string, def int) int {
	if v, err := strconv.Atoi(os.Getenv(name)); err == nil {
		return v
	}
	return def
}

func New(unit string) *Report {
	return &Report{
		Unit: unit, Shard: envInt("VERIF_SHARD", 0), NShards: envInt("VERIF_NSHARDS", 1),
		Tier: Tier(), Outcomes: map[string]int64{}, Counters: map[string]int64{},
		Extra: map[string]any{}, start: time.Now(), vioKeys: map[string]int{},
		distinctSet: map[string]struct{}{}, Exhaustive: true,
	}
}

func Tier() string {
	if t := os.Getenv("VERIF_TIER"); t == "thorough" {
		return t
	}
	return "quick"
}

func Thorough() bool { return Tier() == "thorough" }

func Seed() int64 { return int64(envInt("VERIF_SEED", 0)) }

// Deadline is the soft budget of this shard; harnesses that reach it stop
// enumerating, mark the report not exhaustive and still exit 0.
func Deadline() time.Time {
	s := envInt("VERIF_BUDGET_S", 0)
	if s <= 0 {
		return time.Time{}
	}
	return time.Now().Add(time.Duration(s) * time.Second)
}

// Mine tells whether the k-th item of a deterministic enumeration belongs to this shard.
func (r *Report) Mine(k int64) bool { return int(k%int64(r.NShards)) == r.Shard }

func (r *Report) Eval(n int64) { r.mu.Lock(); r.Evaluations += n; r.mu.Unlock() }

// NonTrivial counts a distinct non-trivial case. key=="" counts unconditionally
// (the caller guarantees distinctness by construction).
func (r *Report) NonTrivial(key string) {
	r.mu.Lock()
	defer r.mu.Unlock()
	if key == "" {
		r.Distinct++
		return
	}
	if _, ok := r.distinctSet[key]; ok {
		return
	}
	r.distinctSet[key] = struct{}{}
	r.Distinct++
}

func (r *Report) Outcome(o string) { r.mu.Lock(); r.Outcomes[o]++; r.mu.Unlock() }

func (r *Report) Count(name string, n int64) { r.mu.Lock(); r.Counters[name] += n; r.mu.Unlock() }

func (r *Report) Sample(s any) {
	r.mu.Lock()
	defer r.mu.Unlock()
	if len(r.Samples) < 6 {
		r.Samples = append(r.Samples, s)
	}
}

func (r *Report) Note(format string, a ...any) {
	r.mu.Lock()
	r.Notes = append(r.Notes, fmt.Sprintf(format, a...))
	r.mu.Unlock()
}

func (r *Report) NotExhaustive(why string) {
	r.mu.Lock()
	r.Exhaustive = false
	if r.Capped == "" {
		r.Capped = why
	}
	r.mu.Unlock()
}

// Violate records a violation. At most 5 are kept per key (with the count in
// Counters["violations:"+key]) so that a systematic failure does not flood.
func (r *Report) Violate(key, detail string, replay any) {
	r.mu.Lock()
	defer r.mu.Unlock()
	r.vioKeys[key]++
	r.Counters["violations:"+key]++
	if r.vioKeys[key] <= 5 {
		r.Violations = append(r.Violations, Violation{Key: key, Detail: detail, Replay: replay})
	}
}

func (r *Report) NumViolations() int { r.mu.Lock(); defer r.mu.Unlock(); return len(r.Violations) }

// Write stores the report where bin/check collects it.
func (r *Report) Write() {
	r.mu.Lock()
	defer r.mu.Unlock()
	r.WallS = time.Since(r.start).Seconds()
	// keep outcome map bounded
	if len(r.Outcomes) > 200 {
		keys := make([]string, 0, len(r.Outcomes))
		for k := range r.Outcomes {
			keys = append(keys, k)
		}
		sort.Strings(keys)
		r.Extra["distinct_outcomes_total"] = len(keys)
		for _, k := range keys[200:] {
			delete(r.Outcomes, k)
		}
	}
	path := os.Getenv("VERIF_REPORT")
	data, err := json.MarshalIndent(r, "", " ")
	if err != nil {
		panic(err)
	}
	if path == "" {
		fmt.Println(string(data))
		return
	}
	if err := os.WriteFile(path, data, 0o644); err != nil {
		panic(err)
	}
}

// ReplayInput returns the replay record passed by `bin/check --replay`, if any.
func ReplayInput() []byte {
	p := os.Getenv("VERIF_REPLAY")
	if p == "" {
		return nil
	}
	data, err := os.ReadFile(p)
	if err != nil {
		panic(err)
	}
	return data
}
