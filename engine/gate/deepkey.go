package gate

import (
	"fmt"
	"os"
	"reflect"
	"sort"
	"strings"
)

// DeepKey renders everything reachable from v (exported or not) that has a value:
// numbers, strings, booleans, the shape and contents of slices, arrays and maps,
// nil-ness of pointers, functions, channels and interfaces. Harnesses add it to
// their state key so that state they do not know about (a field a change
// introduces: a cache, a flag, a progress counter) still tells two states apart;
// without it the visited-set pruning would silently merge them. Channels and
// function values contribute only their nil-ness, pointers are followed once.
func DeepKey(v any) string {
	if noDeep {
		return ""
	}
	var sb strings.Builder
	seen := map[uintptr]bool{}
	deepKey(&sb, reflect.ValueOf(v), seen, 0)
	return sb.String()
}

func deepKey(sb *strings.Builder, v reflect.Value, seen map[uintptr]bool, depth int) {
	if depth > 12 {
		sb.WriteString("…")
		return
	}
	switch v.Kind() {
	case reflect.Invalid:
		sb.WriteString("nil")
	case reflect.Bool:
		fmt.Fprintf(sb, "%v", v.Bool())
	case reflect.Int, reflect.Int8, reflect.Int16, reflect.Int32, reflect.Int64:
		fmt.Fprintf(sb, "%d", v.Int())
	case reflect.Uint, reflect.Uint8, reflect.Uint16, reflect.Uint32, reflect.Uint64, reflect.Uintptr:
		fmt.Fprintf(sb, "%d", v.Uint())
	case reflect.Float32, reflect.Float64:
		fmt.Fprintf(sb, "%g", v.Float())
	case reflect.Complex64, reflect.Complex128:
		fmt.Fprintf(sb, "%g", v.Complex())
	case reflect.String:
		fmt.Fprintf(sb, "%q", v.String())
	case reflect.Ptr:
		if v.IsNil() {
			sb.WriteString("nil")
			return
		}
		p := v.Pointer()
		if seen[p] {
			sb.WriteString("^")
			return
		}
		seen[p] = true
		sb.WriteString("&")
		deepKey(sb, v.Elem(), seen, depth+1)
	case reflect.Interface:
		if v.IsNil() {
			sb.WriteString("nil")
			return
		}
		fmt.Fprintf(sb, "(%s)", v.Elem().Type())
		deepKey(sb, v.Elem(), seen, depth+1)
	case reflect.Struct:
		t := v.Type()
		sb.WriteString("{")
		for i := 0; i < v.NumField(); i++ {
			sb.WriteString(t.Field(i).Name)
			sb.WriteString(":")
			deepKey(sb, v.Field(i), seen, depth+1)
			sb.WriteString(";")
		}
		sb.WriteString("}")
	case reflect.Slice:
		if v.IsNil() {
			sb.WriteString("nil")
			return
		}
		fallthrough
	case reflect.Array:
		if v.Kind() == reflect.Slice && v.Type().Elem().Kind() == reflect.Uint8 {
			n := v.Len()
			b := make([]byte, n)
			for i := 0; i < n; i++ {
				b[i] = byte(v.Index(i).Uint())
			}
			fmt.Fprintf(sb, "x%x", b)
			return
		}
		fmt.Fprintf(sb, "[%d:", v.Len())
		for i := 0; i < v.Len(); i++ {
			deepKey(sb, v.Index(i), seen, depth+1)
			sb.WriteString(",")
		}
		sb.WriteString("]")
	case reflect.Map:
		if v.IsNil() {
			sb.WriteString("nil")
			return
		}
		type kv struct{ k, v string }
		var items []kv
		iter := v.MapRange()
		for iter.Next() {
			var ks, vs strings.Builder
			deepKey(&ks, iter.Key(), seen, depth+1)
			deepKey(&vs, iter.Value(), seen, depth+1)
			items = append(items, kv{ks.String(), vs.String()})
		}
		sort.Slice(items, func(i, j int) bool { return items[i].k < items[j].k })
		sb.WriteString("map[")
		for _, it := range items {
			sb.WriteString(it.k)
			sb.WriteString("=")
			sb.WriteString(it.v)
			sb.WriteString(",")
		}
		sb.WriteString("]")
	case reflect.Chan, reflect.Func, reflect.UnsafePointer:
		if v.IsNil() {
			sb.WriteString("nil")
		} else {
			sb.WriteString(v.Kind().String())
		}
	default:
		sb.WriteString(v.Kind().String())
	}
}

// DeepKeyFields is DeepKey over the fields of the struct v points to, leaving out the named
// ones (typically the field that leads to the scripted peer, whose state the harness keys itself).
func DeepKeyFields(v any, skip ...string) string {
	if noDeep {
		return ""
	}
	rv := reflect.ValueOf(v)
	for rv.Kind() == reflect.Ptr || rv.Kind() == reflect.Interface {
		if rv.IsNil() {
			return "nil"
		}
		rv = rv.Elem()
	}
	if rv.Kind() != reflect.Struct {
		return DeepKey(v)
	}
	var sb strings.Builder
	seen := map[uintptr]bool{}
	t := rv.Type()
fields:
	for i := 0; i < rv.NumField(); i++ {
		for _, s := range skip {
			if t.Field(i).Name == s {
				continue fields
			}
		}
		sb.WriteString(t.Field(i).Name)
		sb.WriteString(":")
		deepKey(&sb, rv.Field(i), seen, 1)
		sb.WriteString(";")
	}
	return sb.String()
}

// noDeep switches the reflective part of the state keys off (VERIF_NO_DEEP=1), to measure what it costs.
var noDeep = os.Getenv("VERIF_NO_DEEP") == "1"
