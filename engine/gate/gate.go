// Package gate is a hand-written stateless model checker for real goroutines.
//
// One execution runs inside a testing/synctest bubble. Every hooked operation
// (mutex acquisition, atomic access, environment answer of a harness fake)
// calls Point, which parks the calling goroutine until the explorer — the
// bubble's root goroutine — releases it. The explorer waits for quiescence with
// synctest.Wait, so at every decision all goroutines are either parked at a
// gate or durably blocked, and it alone decides who runs next. Time is the
// bubble's virtual clock, so timeouts cost nothing and fire deterministically.
//
// Explore is an iterative-context-bounding depth-first search over the choices.
package gate

import (
	"bytes"
	"fmt"
	"runtime"
	"sort"
	"strconv"
	"strings"
	"sync"
	"sync/atomic"
	"testing/synctest"
	"time"
)

type waiter struct {
	goid    uint64
	lid     int
	label   string
	ch      chan struct{}
	enabled func() bool
}

// PointRec describes one decision taken during an execution.
type PointRec struct {
	Enabled        []string // labels in canonical order (lid:label)
	Chosen         int
	RunningEnabled bool   // Enabled[0] is the goroutine that ran last
	Key            uint64 // state key at this decision (0: no key function)
}

// Exec is one controlled execution.
type Exec struct {
	mu       sync.Mutex
	waiting  []*waiter
	wake     chan struct{}
	rootGoid uint64
	off      bool
	lids     map[uint64]int
	names    map[uint64]string
	prefix   []int
	expect   []PointRec
	Points   []PointRec
	running  uint64
	started  time.Time
	Steps    int
	Diverged string // non-empty if replaying the prefix did not see what the parent saw
	MaxSteps int
	Overrun  bool // MaxSteps hit
	// KeyFn, if set, renders the harness-visible global state at a quiescent
	// point. The engine adds the parked goroutines, who ran last and the clock.
	KeyFn func() string
}

var cur *Exec

// freeRunning is set by harnesses that run their bodies without the explorer
// (the separate race-detector pass); guards of PointIf are then polled.
var freeRunning atomic.Bool

// SetFreeRunning switches the polling fallback of PointIf on or off.
func SetFreeRunning(on bool) { freeRunning.Store(on) }

func goid() uint64 {
	var buf [64]byte
	n := runtime.Stack(buf[:], false)
	// "goroutine 123 ["
	b := buf[len("goroutine "):n]
	i := bytes.IndexByte(b, ' ')
	id, _ := strconv.ParseUint(string(b[:i]), 10, 64)
	return id
}

func site(skip int) string {
	_, file, line, ok := runtime.Caller(skip)
	if !ok {
		return "?"
	}
	if i := strings.LastIndexByte(file, '/'); i >= 0 {
		file = file[i+1:]
	}
	return file + ":" + strconv.Itoa(line)
}

// Active reports whether a controlled execution is in progress and gating.
func Active() bool {
	x := cur
	return x != nil && !x.off
}

// Point is a scheduling point that is always enabled.
func Point(kind string) { pointIf(kind, nil, 3) }

// ShimPoint is for wrappers one level below the code under test (the sync and
// atomic shims): the label carries the wrapper's caller.
func ShimPoint(kind string, enabled func() bool) { pointIf(kind, enabled, 4) }

// PointAt is Point with an explicit label instead of the call site.
func PointAt(label string) { pointLabel(label, nil) }

// PointIf is a scheduling point that may only be released while enabled()
// holds (evaluated by the explorer at quiescence).
func PointIf(kind string, enabled func() bool) { pointIf(kind, enabled, 3) }

func pointIf(kind string, enabled func() bool, skip int) {
	x := cur
	if x == nil || x.off {
		if x == nil && enabled != nil && freeRunning.Load() {
			// free-running mode: no explorer, so wait for the guard ourselves
			for !enabled() && freeRunning.Load() {
				time.Sleep(20 * time.Microsecond)
			}
		}
		return
	}
	pointLabel(kind+"@"+site(skip), enabled)
}

func pointLabel(label string, enabled func() bool) {
	x := cur
	if x == nil || x.off {
		return
	}
	g := goid()
	if g == x.rootGoid {
		return
	}
	w := &waiter{goid: g, label: label, ch: make(chan struct{}), enabled: enabled}
	x.mu.Lock()
	if x.off {
		x.mu.Unlock()
		return
	}
	x.waiting = append(x.waiting, w)
	x.mu.Unlock()
	select {
	case x.wake <- struct{}{}:
	default:
	}
	<-w.ch
}

// Poke tells the explorer that state read by some gate's enabled() changed
// outside a gated step (for instance from a timer-driven goroutine).
func Poke() {
	x := cur
	if x == nil || x.off {
		return
	}
	select {
	case x.wake <- struct{}{}:
	default:
	}
}

// Go starts a named harness thread.
func (x *Exec) Go(name string, f func()) {
	if x == nil {
		// free-running mode (race-detector pass): an ordinary goroutine
		go f()
		return
	}
	started := make(chan struct{})
	go func() {
		x.mu.Lock()
		x.names[goid()] = name
		x.mu.Unlock()
		close(started)
		f()
	}()
	<-started
}

// Now returns virtual time elapsed since the execution started.
func (x *Exec) Now() time.Duration { return time.Since(x.started) }

// Run schedules until no gate is waiting and no timer fires within the given
// amount of virtual time (or, with until != nil, until it returns true at a
// quiescent point).
func (x *Exec) Run(quiet time.Duration, until func() bool) {
	var quietTimer *time.Timer
	defer func() {
		if quietTimer != nil {
			quietTimer.Stop()
		}
	}()
	for {
		synctest.Wait()
		if until != nil && until() {
			return
		}
		if x.Steps >= x.MaxSteps {
			x.Overrun = true
			return
		}
		en := x.enabledWaiters()
		if len(en) == 0 {
			// Nothing can be released: let virtual time pass until a timer of
			// the code under test makes something happen (a new gate or a Poke
			// wakes us) or the quiet period is over.
			if quietTimer == nil {
				quietTimer = time.NewTimer(quiet)
			}
			select {
			case <-x.wake:
				continue
			case <-quietTimer.C:
				quietTimer = nil
				synctest.Wait()
				if len(x.enabledWaiters()) > 0 {
					continue
				}
				return
			}
		}
		if quietTimer != nil {
			quietTimer.Stop()
			quietTimer = nil
		}
		// logical ids: first sighting, in goroutine-creation order
		var fresh []*waiter
		for _, w := range en {
			if _, ok := x.lids[w.goid]; !ok {
				fresh = append(fresh, w)
			}
		}
		sort.Slice(fresh, func(i, j int) bool { return fresh[i].goid < fresh[j].goid })
		for _, w := range fresh {
			if _, ok := x.lids[w.goid]; !ok {
				x.lids[w.goid] = len(x.lids)
			}
		}
		for _, w := range en {
			w.lid = x.lids[w.goid]
		}
		sort.Slice(en, func(i, j int) bool {
			ri, rj := en[i].goid == x.running, en[j].goid == x.running
			if ri != rj {
				return ri
			}
			return en[i].lid < en[j].lid
		})
		rec := PointRec{RunningEnabled: en[0].goid == x.running}
		for _, w := range en {
			name := x.names[w.goid]
			if name == "" {
				name = "g" + strconv.Itoa(w.lid)
			}
			rec.Enabled = append(rec.Enabled, name+":"+w.label)
		}
		if x.KeyFn != nil {
			rec.Key = x.stateKey(rec.RunningEnabled)
		}
		idx := len(x.Points)
		c := 0
		if idx < len(x.prefix) {
			c = x.prefix[idx]
			if idx < len(x.expect) {
				want := x.expect[idx].Enabled
				if strings.Join(want, "|") != strings.Join(rec.Enabled, "|") && x.Diverged == "" {
					x.Diverged = fmt.Sprintf("step %d: expected %v, saw %v", idx, want, rec.Enabled)
				}
			}
			if c >= len(en) {
				if x.Diverged == "" {
					x.Diverged = fmt.Sprintf("step %d: choice %d out of range %v", idx, c, rec.Enabled)
				}
				c = 0
			}
		}
		rec.Chosen = c
		x.Points = append(x.Points, rec)
		w := en[c]
		x.mu.Lock()
		for i, o := range x.waiting {
			if o == w {
				x.waiting = append(x.waiting[:i], x.waiting[i+1:]...)
				break
			}
		}
		x.mu.Unlock()
		x.running = w.goid
		x.Steps++
		close(w.ch)
	}
}

func (x *Exec) stateKey(runningEnabled bool) uint64 {
	var sb strings.Builder
	sb.WriteString(x.KeyFn())
	sb.WriteString("|t=")
	sb.WriteString(strconv.FormatInt(int64(x.Now()), 10))
	x.mu.Lock()
	parked := make([]string, 0, len(x.waiting))
	for _, w := range x.waiting {
		lid, ok := x.lids[w.goid]
		name := x.names[w.goid]
		if name == "" {
			if ok {
				name = "g" + strconv.Itoa(lid)
			} else {
				name = "g?"
			}
		}
		r := ""
		if runningEnabled && w.goid == x.running {
			r = "*"
		}
		parked = append(parked, name+":"+w.label+r)
	}
	x.mu.Unlock()
	sort.Strings(parked)
	sb.WriteString("|")
	sb.WriteString(strings.Join(parked, ","))
	h := uint64(14695981039346656037)
	str := sb.String()
	for i := 0; i < len(str); i++ {
		h ^= uint64(str[i])
		h *= 1099511628211
	}
	if h == 0 {
		h = 1
	}
	return h
}

func (x *Exec) enabledWaiters() []*waiter {
	x.mu.Lock()
	ws := append([]*waiter(nil), x.waiting...)
	x.mu.Unlock()
	var en []*waiter
	for _, w := range ws {
		if w.enabled == nil || w.enabled() {
			en = append(en, w)
		}
	}
	return en
}

// Waiting returns the labels of goroutines parked at gates (enabled or not).
func (x *Exec) Waiting() []string {
	x.mu.Lock()
	defer x.mu.Unlock()
	var out []string
	for _, w := range x.waiting {
		name := x.names[w.goid]
		if name == "" {
			name = "g?"
		}
		out = append(out, name+":"+w.label)
	}
	return out
}

// Release switches gating off and lets every parked goroutine continue.
func (x *Exec) Release() {
	x.mu.Lock()
	x.off = true
	ws := x.waiting
	x.waiting = nil
	x.mu.Unlock()
	for _, w := range ws {
		close(w.ch)
	}
}

// Choices returns the choice list of this execution.
func (x *Exec) Choices() []int {
	out := make([]int, len(x.Points))
	for i, p := range x.Points {
		out[i] = p.Chosen
	}
	return out
}

// Begin creates the execution context; it must be called from the bubble's
// root goroutine. prefix is replayed; expect (optional) is what the parent
// execution saw at the prefix's decision points.
func Begin(prefix []int, expect []PointRec) *Exec {
	x := &Exec{
		wake:     make(chan struct{}, 1),
		rootGoid: goid(),
		lids:     map[uint64]int{},
		names:    map[uint64]string{},
		prefix:   prefix,
		expect:   expect,
		started:  time.Now(),
		MaxSteps: 20000,
	}
	cur = x
	return x
}

// End detaches the execution (gates become no-ops).
func (x *Exec) End() {
	x.Release()
	if cur == x {
		cur = nil
	}
}

// ---------------------------------------------------------------------------

// Stats of an exploration.
type Stats struct {
	Executions   int64
	States       int64 // decision points first reached (beyond the replayed prefix)
	Transitions  int64 // gates released
	MaxPoints    int
	BoundDone    int  // highest preemption bound completed (-1: none)
	Exhausted    bool // whole space explored without hitting the bound
	Capped       bool // stopped by budget
	Divergences  int64
	Overruns     int64
	PrunedByCost int64
	PrunedByKey  int64 // decision points not expanded because their state was expanded before
	DistinctKeys int64
}

// Explorer drives the search. RunOne executes the scenario with the given
// prefix and returns the execution (after the harness has checked it).
type Explorer struct {
	Bound    int // preemption bound, <0 = unbounded
	Shard    int
	NShards  int
	Deadline time.Time
	MaxExecs int64
	RunOne   func(prefix []int, expect []PointRec, owned bool) *Exec
	Stats    Stats
	stop     bool
	pruned   bool
	// visited maps a state key to the largest remaining preemption budget it
	// was expanded with (state caching; only used when executions carry keys).
	visited map[uint64]int
}

func hashPrefix(p []int) uint32 {
	h := uint32(2166136261)
	for _, v := range p {
		h ^= uint32(v + 1)
		h *= 16777619
	}
	h ^= uint32(len(p))
	h *= 16777619
	return h
}

// Explore runs the DFS. Work is split over shards at deviation depth 2: every
// shard runs the executions of depth <2 (to discover the tree) but only the
// owner counts and checks them; deeper subtrees are explored by the owner only.
func (e *Explorer) Explore() {
	if e.NShards <= 0 {
		e.NShards = 1
	}
	e.pruned = false
	e.explore(nil, nil, 0, 0)
	e.Stats.Capped = e.stop
	if !e.stop {
		e.Stats.BoundDone = e.Bound
		e.Stats.Exhausted = !e.pruned
	}
}

func (e *Explorer) explore(prefix []int, expect []PointRec, depth int, cost int) {
	if e.stop {
		return
	}
	if (e.MaxExecs > 0 && e.Stats.Executions >= e.MaxExecs) || (!e.Deadline.IsZero() && time.Now().After(e.Deadline)) {
		e.stop = true
		return
	}
	const split = 2
	owner := int(hashPrefix(prefix)%uint32(e.NShards)) == e.Shard
	if depth == split && !owner {
		return
	}
	owned := owner || depth > split
	x := e.RunOne(prefix, expect, owned)
	if owned {
		e.Stats.Executions++
		e.Stats.States += int64(len(x.Points) - len(prefix))
		e.Stats.Transitions += int64(x.Steps)
		if len(x.Points) > e.Stats.MaxPoints {
			e.Stats.MaxPoints = len(x.Points)
		}
		if x.Diverged != "" {
			e.Stats.Divergences++
		}
		if x.Overrun {
			e.Stats.Overruns++
		}
	}
	if x.Diverged != "" {
		return
	}
	pts := x.Points
	choices := x.Choices()
	// preemptions spent before point i
	c := cost
	for i := len(prefix); i < len(pts); i++ {
		p := pts[i]
		if p.Key != 0 {
			if e.visited == nil {
				e.visited = map[uint64]int{}
			}
			remaining := 1 << 30
			if e.Bound >= 0 {
				remaining = e.Bound - c
			}
			if had, ok := e.visited[p.Key]; ok && had >= remaining {
				// this state was (or is being) expanded with at least this budget:
				// everything reachable from here is covered by that expansion
				if owned {
					e.Stats.PrunedByKey += int64(len(pts) - i)
				}
				break
			} else if !ok {
				e.Stats.DistinctKeys++
			}
			e.visited[p.Key] = remaining
		}
		for alt := 1; alt < len(p.Enabled); alt++ {
			nc := c
			if p.RunningEnabled {
				nc++
			}
			if e.Bound >= 0 && nc > e.Bound {
				e.pruned = true
				if owned {
					e.Stats.PrunedByCost++
				}
				continue
			}
			np := append(append([]int{}, choices[:i]...), alt)
			e.explore(np, pts[:i+1], depth+1, nc)
			if e.stop {
				return
			}
		}
		// default choice 0 never costs a preemption (it continues the running
		// goroutine if enabled, else the lowest id)
	}
}
