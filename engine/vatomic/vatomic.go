// Package vatomic replaces "sync/atomic" in the packages under schedule
// exploration: every access is a gate followed by the real operation.
package vatomic

import (
	"sync/atomic"

	"connectrpc.com/conformance/internal/verif/gate"
)

type Bool struct{ v atomic.Bool }

// Peek reads the value without a scheduling point (for harness oracles and state keys).
func (b *Bool) Peek() bool { return b.v.Load() }

func (b *Bool) Load() bool       { gate.ShimPoint("Bool.Load", nil); return b.v.Load() }
func (b *Bool) Store(x bool)     { gate.ShimPoint("Bool.Store", nil); b.v.Store(x) }
func (b *Bool) Swap(x bool) bool { gate.ShimPoint("Bool.Swap", nil); return b.v.Swap(x) }
func (b *Bool) CompareAndSwap(o, n bool) bool {
	gate.ShimPoint("Bool.CAS", nil)
	return b.v.CompareAndSwap(o, n)
}

type Int32 struct{ v atomic.Int32 }

func (b *Int32) Load() int32        { gate.ShimPoint("Int32.Load", nil); return b.v.Load() }
func (b *Int32) Store(x int32)      { gate.ShimPoint("Int32.Store", nil); b.v.Store(x) }
func (b *Int32) Add(x int32) int32  { gate.ShimPoint("Int32.Add", nil); return b.v.Add(x) }
func (b *Int32) Swap(x int32) int32 { gate.ShimPoint("Int32.Swap", nil); return b.v.Swap(x) }
func (b *Int32) CompareAndSwap(o, n int32) bool {
	gate.ShimPoint("Int32.CAS", nil)
	return b.v.CompareAndSwap(o, n)
}

type Int64 struct{ v atomic.Int64 }

func (b *Int64) Load() int64        { gate.ShimPoint("Int64.Load", nil); return b.v.Load() }
func (b *Int64) Store(x int64)      { gate.ShimPoint("Int64.Store", nil); b.v.Store(x) }
func (b *Int64) Add(x int64) int64  { gate.ShimPoint("Int64.Add", nil); return b.v.Add(x) }
func (b *Int64) Swap(x int64) int64 { gate.ShimPoint("Int64.Swap", nil); return b.v.Swap(x) }
func (b *Int64) CompareAndSwap(o, n int64) bool {
	gate.ShimPoint("Int64.CAS", nil)
	return b.v.CompareAndSwap(o, n)
}

type Uint32 struct{ v atomic.Uint32 }

func (b *Uint32) Load() uint32        { gate.ShimPoint("Uint32.Load", nil); return b.v.Load() }
func (b *Uint32) Store(x uint32)      { gate.ShimPoint("Uint32.Store", nil); b.v.Store(x) }
func (b *Uint32) Add(x uint32) uint32 { gate.ShimPoint("Uint32.Add", nil); return b.v.Add(x) }

type Pointer[T any] struct{ v atomic.Pointer[T] }

func (p *Pointer[T]) Load() *T     { gate.ShimPoint("Pointer.Load", nil); return p.v.Load() }
func (p *Pointer[T]) Store(x *T)   { gate.ShimPoint("Pointer.Store", nil); p.v.Store(x) }
func (p *Pointer[T]) Swap(x *T) *T { gate.ShimPoint("Pointer.Swap", nil); return p.v.Swap(x) }
func (p *Pointer[T]) CompareAndSwap(o, n *T) bool {
	gate.ShimPoint("Pointer.CAS", nil)
	return p.v.CompareAndSwap(o, n)
}

type Value = atomic.Value
