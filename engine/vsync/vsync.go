// Package vsync replaces "sync" in the packages under schedule exploration.
// Mutex acquisition is a gate and blocks durably (bubble channel), so the
// explorer sees a contended Lock as "not enabled" instead of losing control.
package vsync

import (
	"os"
	"sync"

	"connectrpc.com/conformance/internal/verif/gate"
)

type (
	WaitGroup = sync.WaitGroup
	Once      = sync.Once
	Locker    = sync.Locker
	Pool      = sync.Pool
	Map       = sync.Map
)

// gateUnlock makes Unlock a scheduling point of its own (after the lock has been
// released), so that another goroutine can run between an Unlock and whatever the
// unlocking goroutine does next. Off by default: it multiplies the schedule space.
var gateUnlock = os.Getenv("VERIF_GATE_UNLOCK") == "1"

type Mutex struct {
	init sync.Once
	ch   chan struct{}
}

func (m *Mutex) lazy() {
	m.init.Do(func() { m.ch = make(chan struct{}, 1) })
}

func (m *Mutex) Lock() {
	m.lazy()
	gate.ShimPoint("Lock", func() bool { return len(m.ch) == 0 })
	m.ch <- struct{}{}
}

func (m *Mutex) TryLock() bool {
	m.lazy()
	gate.ShimPoint("TryLock", nil)
	select {
	case m.ch <- struct{}{}:
		return true
	default:
		return false
	}
}

func (m *Mutex) Unlock() {
	m.lazy()
	select {
	case <-m.ch:
	default:
		panic("vsync: unlock of unlocked mutex")
	}
	gate.Poke()
	if gateUnlock {
		gate.ShimPoint("Unlock", nil)
	}
}

// Held reports whether the mutex is currently held (for observers at quiescence).
func (m *Mutex) Held() bool { m.lazy(); return len(m.ch) == 1 }

// RWMutex is modelled as an exclusive lock (sound over-approximation of
// blocking, adequate because nothing under exploration uses RLock today).
type RWMutex struct{ Mutex }

func (m *RWMutex) RLock()   { m.Lock() }
func (m *RWMutex) RUnlock() { m.Unlock() }
